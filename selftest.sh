#!/bin/bash
# Sensitivity / false-alarm self-tests of the checks.
#   ./selftest.sh mutants [pattern]   every mutants/<OWNER>-<name>.diff (matching pattern) applied to a scratch
#                                     worktree of /repo must turn OWNER's quick check to exit 1
#   ./selftest.sh refactors [pattern] every refactors/<name>.diff must leave the listed checks at exit 0
#   ./selftest.sh patch <file.diff> <property> [tier]   run one check against one patch, print the exit status
# Nothing is written to /verif/evidence or /verif/replays; /repo is never modified.
set -u
export GOFLAGS=-mod=mod GOPROXY=off GOSUMDB=off GOTOOLCHAIN=local
VERIF="$(cd "$(dirname "$0")" && pwd)"
W=$(mktemp -d /var/tmp/selftest.XXXXXX)
cleanup() { git -C /repo worktree remove --force "$W/repo" >/dev/null 2>&1; rm -rf "$W"; }
trap cleanup EXIT
git -C /repo worktree add -q --detach "$W/repo" HEAD || exit 2
mkdir -p "$W/ev" "$W/rp"

run_one() { # patch property tier -> exit status of the check; output in $W/last.log
  local patch="$1" prop="$2" tier="${3:-quick}"
  git -C "$W/repo" checkout -q -- . && git -C "$W/repo" clean -fdq
  git -C "$W/repo" apply "$patch" || return 99
  rm -rf "$W/rp"/*
  VERIF_REPO="$W/repo" VERIF_EVIDENCE_DIR="$W/ev" VERIF_REPLAY_DIR="$W/rp" "$VERIF/check" "$prop" "$tier" > "$W/last.log" 2>&1
}

case "${1:-}" in
  mutants)
    pass=0; fail=0
    for d in "$VERIF"/mutants/C*.diff; do
      n=$(basename "$d" .diff); [[ "$n" == *"${2:-}"* ]] || continue
      owner=${n%%-*}
      s=$(date +%s); run_one "$d" "$owner" quick; rc=$?; e=$(( $(date +%s) - s ))
      if [ $rc -eq 1 ]; then pass=$((pass+1)); echo "CAUGHT  $n by $owner quick (${e}s): $(grep -m1 '^violation' "$W/last.log" | cut -c1-160)"
      else fail=$((fail+1)); echo "MISSED  $n by $owner quick: exit $rc (${e}s) $(tail -1 "$W/last.log" | cut -c1-200)"; fi
    done
    echo "mutants: $pass caught, $fail missed"; [ $fail -eq 0 ] ;;
  refactors)
    bad=0
    for d in "$VERIF"/refactors/*.diff; do
      n=$(basename "$d" .diff); [[ "$n" == *"${2:-}"* ]] || continue
      props=$(sed -n 's/^# checks: //p' "$d" | head -1); [ -n "$props" ] || props="C05 C06 C07 C08 C09 C16 C17 C18 C19"
      for p in $props; do
        run_one "$d" "$p" quick; rc=$?
        if [ $rc -eq 0 ]; then echo "QUIET   $n under $p"; else bad=$((bad+1)); echo "ALARM   $n under $p: exit $rc $(grep -m1 -E '^(violation|HARNESS)' "$W/last.log" | cut -c1-200)"; fi
      done
    done
    echo "refactors: $bad false alarms"; [ $bad -eq 0 ] ;;
  patch)
    run_one "$2" "$3" "${4:-quick}"; rc=$?
    grep -E '^(violation|VIOLATION|KNOWN|HARNESS|==)' "$W/last.log" | cut -c1-400
    if [ -n "${KEEP_REPLAYS:-}" ]; then mkdir -p "$KEEP_REPLAYS"; cp -r "$W/rp"/* "$KEEP_REPLAYS"/ 2>/dev/null; fi
    echo "exit=$rc"; exit $rc ;;
  *) echo "usage: $0 mutants|refactors [pattern] | patch <diff> <property> [tier]"; exit 2 ;;
esac
