// Package parallel is the simulator's stand-in for github.com/mandykoh/go-parallel
// v0.1.0 (15 lines: n goroutines, a WaitGroup, join). Same contract - worker
// is called n times with (workerNum, n) and RunWorkers returns after all have
// finished - same happens-before edges (go statement parent->child, WaitGroup
// child->parent), but inside a simulated run the workers are tasks of the
// seeded scheduler. Outside a run it is the original code.
package parallel

import (
	"sync"

	"verif.local/simrt"
)

// RunWorkers executes the specified worker function using n goroutines, passing
// each a workerNum from 0-n and a workerCount of n. This function returns after
// all workers have run to completion.
func RunWorkers(n int, worker func(workerNum, workerCount int)) {
	allDone := sync.WaitGroup{}
	allDone.Add(n)

	if !simrt.Active() {
		for workerNum := 0; workerNum < n; workerNum++ {
			go func(workerNum int) {
				defer allDone.Done()
				worker(workerNum, n)
			}(workerNum)
		}
		allDone.Wait()
		return
	}

	panics := make([]interface{}, n)
	for workerNum := 0; workerNum < n; workerNum++ {
		workerNum := workerNum
		simrt.Go(func() {
			defer allDone.Done()
			defer func() {
				// in the real library a panicking worker kills the process; here
				// it is handed to the caller so that the run can report it
				if r := recover(); r != nil {
					panics[workerNum] = r
				}
			}()
			worker(workerNum, n)
		})
	}
	simrt.JoinChildren()
	allDone.Wait()
	for _, p := range panics {
		if p != nil {
			panic(p)
		}
	}
}
