module github.com/mandykoh/go-parallel

go 1.14
