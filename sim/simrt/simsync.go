package simrt

import (
	"sync"
	"unsafe"
)

// The wrappers below stand in for sync.Once / Mutex / RWMutex / WaitGroup in the
// instrumented copy of prism. Inside a simulated run a task that would block is
// parked at simulator level (the holder keeps running under the scheduler);
// once the way is free the real primitive is invoked, now without blocking, so
// that the race detector records exactly the acquire/release edges the real
// program has. Outside a run they are the real primitives.

type Once struct {
	real sync.Once
	busy bool
}

//go:norace
func (o *Once) Do(f func()) {
	if !active {
		o.real.Do(f)
		return
	}
	addr := uintptr(unsafe.Pointer(o))
	for o.busy {
		probe(ProbeBlockedOnOnce)
		if !blockOn(addr) {
			return
		}
	}
	o.busy = true
	s := cur
	s.onceIn++
	if s.onceIn > 1 {
		probe(ProbeTwoInsideFirstUse)
	}
	defer onceLeave(o, s, addr)
	o.real.Do(f)
}

//go:norace
func onceLeave(o *Once, s *sched, addr uintptr) {
	o.busy = false
	s.onceIn--
	if active {
		wake(addr)
	}
}

type Mutex struct {
	real sync.Mutex
	held bool
}

//go:norace
func (m *Mutex) Lock() {
	if !active {
		m.real.Lock()
		return
	}
	addr := uintptr(unsafe.Pointer(m))
	for m.held {
		if !blockOn(addr) {
			return
		}
	}
	m.held = true
	m.real.Lock()
}

//go:norace
func (m *Mutex) Unlock() {
	m.real.Unlock()
	if !active {
		return
	}
	m.held = false
	wake(uintptr(unsafe.Pointer(m)))
}

//go:norace
func (m *Mutex) TryLock() bool {
	if active && m.held {
		return false
	}
	ok := m.real.TryLock()
	if ok && active {
		m.held = true
	}
	return ok
}

type RWMutex struct {
	real    sync.RWMutex
	writer  bool
	readers int
}

//go:norace
func (m *RWMutex) Lock() {
	if !active {
		m.real.Lock()
		return
	}
	addr := uintptr(unsafe.Pointer(m))
	for m.writer || m.readers > 0 {
		if !blockOn(addr) {
			return
		}
	}
	m.writer = true
	m.real.Lock()
}

//go:norace
func (m *RWMutex) Unlock() {
	m.real.Unlock()
	if !active {
		return
	}
	m.writer = false
	wake(uintptr(unsafe.Pointer(m)))
}

//go:norace
func (m *RWMutex) RLock() {
	if !active {
		m.real.RLock()
		return
	}
	addr := uintptr(unsafe.Pointer(m))
	for m.writer {
		if !blockOn(addr) {
			return
		}
	}
	m.readers++
	m.real.RLock()
}

//go:norace
func (m *RWMutex) RUnlock() {
	m.real.RUnlock()
	if !active {
		return
	}
	m.readers--
	wake(uintptr(unsafe.Pointer(m)))
}

type WaitGroup struct {
	real sync.WaitGroup
	n    int
}

//go:norace
func (w *WaitGroup) Add(d int) {
	w.n += d
	w.real.Add(d)
	if active && w.n <= 0 {
		wake(uintptr(unsafe.Pointer(w)))
	}
}

//go:norace
func (w *WaitGroup) Done() { w.Add(-1) }

//go:norace
func (w *WaitGroup) Wait() {
	if active {
		addr := uintptr(unsafe.Pointer(w))
		for w.n > 0 {
			if !blockOn(addr) {
				return
			}
		}
	}
	w.real.Wait()
}

// Cond stands in for sync.Cond. Inside a run Wait releases L, parks the task
// until Signal or Broadcast, and re-acquires L; the happens-before edges are
// those of L, as in a correct use of the real type.
type Cond struct {
	L       sync.Locker
	real    *sync.Cond
	waiting int
	tickets int // wake-ups granted and not yet consumed
}

// NewCond is sync.NewCond.
func NewCond(l sync.Locker) *Cond { return &Cond{L: l, real: sync.NewCond(l)} }

//go:norace
func (c *Cond) Wait() {
	if !active {
		c.real.Wait()
		return
	}
	addr := uintptr(unsafe.Pointer(c))
	c.waiting++
	c.L.Unlock()
	for c.tickets == 0 {
		if !blockOn(addr) {
			break
		}
	}
	if c.tickets > 0 {
		c.tickets--
	}
	c.waiting--
	c.L.Lock()
}

//go:norace
func (c *Cond) Signal() {
	if !active {
		c.real.Signal()
		return
	}
	if c.waiting > c.tickets {
		c.tickets++
		wake(uintptr(unsafe.Pointer(c)))
	}
}

//go:norace
func (c *Cond) Broadcast() {
	if !active {
		c.real.Broadcast()
		return
	}
	if c.waiting > c.tickets {
		c.tickets = c.waiting
		wake(uintptr(unsafe.Pointer(c)))
	}
}
