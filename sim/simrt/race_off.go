//go:build !race

package simrt

const RaceEnabled = false

func raceOff()        {}
func raceOn()         {}
func RaceErrors() int { return 0 }
