package simrt

import (
	"reflect"
	"unsafe"
)

// Channel operations of the instrumented code (send statements, receive
// expressions, close calls are rewritten by siminstr to Send / Recv / Recv2 /
// Close). Inside a simulated run an operation that would block parks the task
// at simulator level; the real operation is executed when it can complete, so
// the race detector sees exactly the synchronisation the real program has. An
// unbuffered rendezvous is carried out by both goroutines for real while only
// one of them holds the token. range-over-channel loops become Recv2 loops;
// select statements become a switch over Select (below), except those waiting
// on channels fed by the runtime (timers, contexts), which stay as they are.

const (
	dirNone = iota
	dirSend
	dirRecv
)

//go:norace
func chanKey[T any](ch <-chan T) uintptr { return *(*uintptr)(unsafe.Pointer(&ch)) }

//go:norace
func parkedOn(key uintptr, dir int) *task {
	s := cur
	for i := int32(0); i < s.ntasks; i++ {
		t := s.tasks[i]
		if !t.blocked || t.done {
			continue
		}
		if t.waitObj == key && t.waitDir == dir {
			return t
		}
		for j := 0; j < t.nsel; j++ {
			if t.sel[j].key == key && t.sel[j].dir == dir {
				t.rvIdx = t.sel[j].idx
				return t
			}
		}
	}
	return nil
}

// release makes a parked peer runnable for an unbuffered rendezvous.
//
//go:norace
func release(t *task) {
	t.blocked, t.waitObj, t.waitDir, t.nsel, t.rv = false, 0, dirNone, 0, true
}

// parkOnly parks the calling task (which does not hold the token and is
// runnable) until the scheduler picks it.
//
//go:norace
func parkOnly(me *task) {
	raceOff()
	<-me.wake
	raceOn()
}

// Send is `ch <- v`.
//
//go:norace
func Send[T any](ch chan<- T, v T) {
	if !active {
		ch <- v
		return
	}
	s := cur
	key := *(*uintptr)(unsafe.Pointer(&ch))
	for {
		select {
		case ch <- v:
			wake(key)
			return
		default:
		}
		me := s.cur
		if cap(ch) == 0 {
			if r := parkedOn(key, dirRecv); r != nil {
				// rendezvous with a parked receiver: it gets the token and
				// receives for real while this goroutine sends for real
				release(r)
				if n := s.res.NSwitch; n < MaxSwitches {
					s.res.Switches[n] = Switch{Step: s.res.Steps, From: me.id, To: r.id, Site: -6}
				}
				s.res.NSwitch++
				s.cur = r
				raceOff()
				r.wake <- struct{}{}
				raceOn()
				ch <- v
				parkOnly(me)
				return
			}
		}
		me.waitDir = dirSend
		if !blockOn(key) {
			return
		}
		me.waitDir = dirNone
		if me.rv {
			// a receiver found this sender parked and woke it for the real send
			// (the receiver keeps the token)
			me.rv = false
			ch <- v
			parkOnly(me)
			return
		}
	}
}

// Recv is `<-ch`.
//
//go:norace
func Recv[T any](ch <-chan T) T {
	v, _ := Recv2(ch)
	return v
}

// Recv2 is `v, ok := <-ch`.
//
//go:norace
func Recv2[T any](ch <-chan T) (v T, ok bool) {
	if !active {
		v, ok = <-ch
		return
	}
	s := cur
	key := chanKey(ch)
	for {
		select {
		case v, ok = <-ch:
			wake(key)
			return
		default:
		}
		me := s.cur
		if cap(ch) == 0 {
			if snd := parkedOn(key, dirSend); snd != nil {
				// rendezvous with a parked sender: wake its goroutine for the real
				// send (it parks again afterwards) and receive for real
				release(snd)
				raceOff()
				snd.wake <- struct{}{}
				raceOn()
				v, ok = <-ch
				return
			}
		}
		me.waitDir = dirRecv
		if !blockOn(key) {
			return
		}
		me.waitDir = dirNone
		if me.rv {
			me.rv = false
			v, ok = <-ch
			return
		}
	}
}

// Close is `close(ch)`.
//
//go:norace
func Close[T any](ch chan<- T) {
	close(ch)
	if active {
		wake(*(*uintptr)(unsafe.Pointer(&ch)))
	}
}

// ------------------------------------------------------------------ select

// MaxSelect is the largest number of communication cases of one select.
const MaxSelect = 8

type selWait struct {
	key uintptr
	dir int
	idx int
}

// SelCase is one communication case of a select statement.
type SelCase interface {
	selKey() uintptr
	selDir() int
	selCap() int
	try() bool // the real operation, non-blocking
	do()       // the real operation, blocking
	reflCase() reflect.SelectCase
	reflSet(v reflect.Value, ok bool)
}

// RecvSel is `case v, ok := <-ch`.
type RecvSel[T any] struct {
	ch <-chan T
	V  T
	Ok bool
}

// SendSel is `case ch <- v`.
type SendSel[T any] struct {
	ch chan<- T
	v  T
}

func RecvCase[T any](ch <-chan T) *RecvSel[T]      { return &RecvSel[T]{ch: ch} }
func SendCase[T any](ch chan<- T, v T) *SendSel[T] { return &SendSel[T]{ch: ch, v: v} }

//go:norace
func (c *RecvSel[T]) selKey() uintptr { return chanKey(c.ch) }

//go:norace
func (c *RecvSel[T]) selDir() int { return dirRecv }

//go:norace
func (c *RecvSel[T]) selCap() int { return cap(c.ch) }

//go:norace
func (c *RecvSel[T]) try() bool {
	select {
	case c.V, c.Ok = <-c.ch:
		return true
	default:
		return false
	}
}

//go:norace
func (c *RecvSel[T]) do() { c.V, c.Ok = <-c.ch }

//go:norace
func (c *SendSel[T]) selKey() uintptr { return *(*uintptr)(unsafe.Pointer(&c.ch)) }

//go:norace
func (c *SendSel[T]) selDir() int { return dirSend }

//go:norace
func (c *SendSel[T]) selCap() int { return cap(c.ch) }

//go:norace
func (c *SendSel[T]) try() bool {
	select {
	case c.ch <- c.v:
		return true
	default:
		return false
	}
}

//go:norace
func (c *SendSel[T]) do() { c.ch <- c.v }

// Select is the head of a rewritten select statement: it returns the index of
// the case whose communication it carried out, or -1 for the default clause.
// Among several ready cases the choice comes from the run's PRNG (a rotation of
// the case list), so it is part of the schedule and replays with it.
//
//go:norace
func Select(hasDefault bool, cases ...SelCase) int {
	n := len(cases)
	if !active {
		return selectReal(hasDefault, cases)
	}
	if n > MaxSelect {
		panic(LimitExceeded("simrt: select with too many cases"))
	}
	s := cur
	for {
		me := s.cur
		start := 0
		if n > 1 {
			start = int(s.rand() % uint64(n))
		}
		for k := 0; k < n; k++ {
			i := (start + k) % n
			c := cases[i]
			key := c.selKey()
			if key == 0 {
				continue // nil channel: never ready
			}
			if c.try() { // buffered progress, or a closed channel
				wake(key)
				return i
			}
			if c.selCap() != 0 {
				continue
			}
			if c.selDir() == dirSend {
				if r := parkedOn(key, dirRecv); r != nil {
					release(r)
					if m := s.res.NSwitch; m < MaxSwitches {
						s.res.Switches[m] = Switch{Step: s.res.Steps, From: me.id, To: r.id, Site: -6}
					}
					s.res.NSwitch++
					s.cur = r
					raceOff()
					r.wake <- struct{}{}
					raceOn()
					c.do()
					parkOnly(me)
					return i
				}
			} else if snd := parkedOn(key, dirSend); snd != nil {
				release(snd)
				raceOff()
				snd.wake <- struct{}{}
				raceOn()
				c.do()
				return i
			}
		}
		if hasDefault {
			return -1
		}
		me.nsel = 0
		for i := 0; i < n; i++ {
			if key := cases[i].selKey(); key != 0 {
				me.sel[me.nsel] = selWait{key: key, dir: cases[i].selDir(), idx: i}
				me.nsel++
			}
		}
		me.blocked, me.waitObj = true, 0
		if !s.handOff(me, -5) {
			me.nsel = 0
			return -1
		}
		me.nsel = 0
		if me.rv {
			me.rv = false
			i := me.rvIdx
			cases[i].do()
			if cases[i].selDir() == dirSend {
				parkOnly(me) // the receiver keeps the token
			}
			return i
		}
	}
}

func (c *RecvSel[T]) reflCase() reflect.SelectCase {
	return reflect.SelectCase{Dir: reflect.SelectRecv, Chan: reflect.ValueOf(c.ch)}
}

func (c *RecvSel[T]) reflSet(v reflect.Value, ok bool) {
	c.Ok = ok
	if ok {
		reflect.ValueOf(&c.V).Elem().Set(v)
	}
}

func (c *SendSel[T]) reflCase() reflect.SelectCase {
	v := reflect.ValueOf(&c.v).Elem()
	return reflect.SelectCase{Dir: reflect.SelectSend, Chan: reflect.ValueOf(c.ch), Send: v}
}

func (c *SendSel[T]) reflSet(reflect.Value, bool) {}

// selectReal is the select statement outside simulated runs (goroutines that a
// defective tree leaves behind, reference evaluations): the real thing.
func selectReal(hasDefault bool, cases []SelCase) int {
	rc := make([]reflect.SelectCase, 0, len(cases)+1)
	for _, c := range cases {
		rc = append(rc, c.reflCase())
	}
	if hasDefault {
		rc = append(rc, reflect.SelectCase{Dir: reflect.SelectDefault})
	}
	i, v, ok := reflect.Select(rc)
	if i >= len(cases) {
		return -1
	}
	cases[i].reflSet(v, ok)
	return i
}
