package simrt

import "unsafe"

// Channel operations of the instrumented code (send statements, receive
// expressions, close calls are rewritten by siminstr to Send / Recv / Recv2 /
// Close). Inside a simulated run an operation that would block parks the task
// at simulator level; the real operation is executed when it can complete, so
// the race detector sees exactly the synchronisation the real program has. An
// unbuffered rendezvous is carried out by both goroutines for real while only
// one of them holds the token. select statements and range-over-channel loops
// are not modelled (a tree using them trips the watchdog: exit 2).

const (
	dirNone = iota
	dirSend
	dirRecv
)

//go:norace
func chanKey[T any](ch <-chan T) uintptr { return *(*uintptr)(unsafe.Pointer(&ch)) }

//go:norace
func parkedOn(key uintptr, dir int) *task {
	s := cur
	for i := int32(0); i < s.ntasks; i++ {
		t := s.tasks[i]
		if t.blocked && t.waitObj == key && t.waitDir == dir && !t.done {
			return t
		}
	}
	return nil
}

// parkOnly parks the calling task (which does not hold the token and is
// runnable) until the scheduler picks it.
//
//go:norace
func parkOnly(me *task) {
	raceOff()
	<-me.wake
	raceOn()
}

// Send is `ch <- v`.
//
//go:norace
func Send[T any](ch chan<- T, v T) {
	if !active {
		ch <- v
		return
	}
	s := cur
	key := *(*uintptr)(unsafe.Pointer(&ch))
	for {
		select {
		case ch <- v:
			wake(key)
			return
		default:
		}
		me := s.cur
		if cap(ch) == 0 {
			if r := parkedOn(key, dirRecv); r != nil {
				// rendezvous with a parked receiver: it gets the token and
				// receives for real while this goroutine sends for real
				r.blocked, r.waitObj, r.waitDir, r.rv = false, 0, dirNone, true
				if n := s.res.NSwitch; n < MaxSwitches {
					s.res.Switches[n] = Switch{Step: s.res.Steps, From: me.id, To: r.id, Site: -6}
				}
				s.res.NSwitch++
				s.cur = r
				raceOff()
				r.wake <- struct{}{}
				raceOn()
				ch <- v
				parkOnly(me)
				return
			}
		}
		me.waitDir = dirSend
		if !blockOn(key) {
			return
		}
		me.waitDir = dirNone
		if me.rv {
			// a receiver found this sender parked and woke it for the real send
			// (the receiver keeps the token)
			me.rv = false
			ch <- v
			parkOnly(me)
			return
		}
	}
}

// Recv is `<-ch`.
//
//go:norace
func Recv[T any](ch <-chan T) T {
	v, _ := Recv2(ch)
	return v
}

// Recv2 is `v, ok := <-ch`.
//
//go:norace
func Recv2[T any](ch <-chan T) (v T, ok bool) {
	if !active {
		v, ok = <-ch
		return
	}
	s := cur
	key := chanKey(ch)
	for {
		select {
		case v, ok = <-ch:
			wake(key)
			return
		default:
		}
		me := s.cur
		if cap(ch) == 0 {
			if snd := parkedOn(key, dirSend); snd != nil {
				// rendezvous with a parked sender: wake its goroutine for the real
				// send (it parks again afterwards) and receive for real
				snd.blocked, snd.waitObj, snd.waitDir, snd.rv = false, 0, dirNone, true
				raceOff()
				snd.wake <- struct{}{}
				raceOn()
				v, ok = <-ch
				return
			}
		}
		me.waitDir = dirRecv
		if !blockOn(key) {
			return
		}
		me.waitDir = dirNone
		if me.rv {
			me.rv = false
			v, ok = <-ch
			return
		}
	}
}

// Close is `close(ch)`.
//
//go:norace
func Close[T any](ch chan<- T) {
	close(ch)
	if active {
		wake(*(*uintptr)(unsafe.Pointer(&ch)))
	}
}
