// Package simrt is the task simulator of engine B. Tasks are real goroutines of
// which exactly one holds the token; Yield (inserted before every statement of
// the instrumented copy of prism), task start/finish and blocking hand the
// token over with unbuffered-channel operations executed between
// runtime.RaceDisable and runtime.RaceEnable inside //go:norace functions. The
// race detector therefore sees no happens-before edge from the simulator: a run
// is serial and a pure function of its schedule, yet two conflicting accesses
// not ordered by the library's own synchronisation are still reported, however
// far apart the simulator ran them.
//
// Nothing in this package may allocate through append or touch a map while
// tasks run (runtime helpers for those carry race hooks): all per-run state
// lives in fixed arrays prepared on the root goroutine.
package simrt

import (
	"sync/atomic"
	"time"
)

// stray counts goroutines started through Go outside a simulated run that have
// not finished yet. A library that returns before its own goroutines are done
// (which is a defect, but one the harness must survive) would otherwise leave
// them executing instrumented code when the next run starts, where they would
// be mistaken for the token holder.
var stray int64

const (
	MaxTasks    = 512
	MaxSwitches = 192
	MaxPoints   = 8
)

// Strategy kinds.
const (
	SerialPerm = iota
	RandomWalk
	PCT
	SiteBias
)

// Schedule is everything that decides an interleaving; it is filled on the
// root goroutine from the run's tape before any task starts.
type Schedule struct {
	Kind int
	// SerialPerm / SiteBias / general: order in which runnable tasks are picked
	// when a choice is needed: Picks[i] is reduced modulo the number of
	// runnable tasks at the i-th choice (cyclic).
	Picks [64]uint32
	// RandomWalk: probability per mille of switching at a yield, PRNG seed
	Permille uint32
	Seed     uint64
	// PCT: initial priorities per task index (higher runs first) and
	// priority-change points (step numbers)
	Prio   [MaxTasks]uint32
	Points [MaxPoints]int64
	NPoint int
	// SiteBias: preempt at the Points[i]-th visit of a hot site
	MaxSteps int64
}

type Switch struct {
	Step     int64
	From, To int32
	Site     int32
}

type task struct {
	id       int32
	wake     chan struct{}
	done     bool
	started  bool
	blocked  bool
	waitObj  uintptr // address of the object the task is parked on (0: none)
	waitDir  int     // channel operations: direction the task is parked for
	rv       bool    // woken for an unbuffered rendezvous
	rvIdx    int     // ... on this case of the select it is parked in
	sel      [MaxSelect]selWait
	nsel     int  // > 0: parked in a select on these (channel, direction) pairs
	waitKids bool // parked until all of its children are done
	parent   int32
	kids     int32 // live children
	prio     uint32
	steps    int64
}

// Result of one simulated run.
type Result struct {
	Steps        int64
	Switches     [MaxSwitches]Switch
	NSwitch      int
	SeqHash      uint64
	Tasks        int
	Deadlock     bool
	TasksStepped int // tasks that executed at least one instrumented step
	Probes       [16]int64
}

// Probe indices.
const (
	ProbeBlockedOnOnce = iota
	ProbePreemptedInsideOnce
	ProbeTwoInsideFirstUse
	ProbeHotPreempt
	ProbeNested
)

type sched struct {
	tasks  [MaxTasks]*task
	ntasks int32
	cur    *task
	sc     *Schedule
	res    *Result
	rng    uint64
	pick   int
	hotN   int64
	onceIn int32 // tasks currently inside some Once.Do body
	rootCh chan struct{}
}

var (
	active bool
	cur    *sched
	hot    []bool // site id -> hot (lut.go, worker closures); set once at start-up
)

// SetHotSites installs the hot-site table (called once, before any run).
func SetHotSites(h []bool) { hot = h }

// Active reports whether a simulated run is in progress.
//
//go:norace
func Active() bool { return active }

//go:norace
func mix(h, x uint64) uint64 {
	h ^= x + 0x9E3779B97F4A7C15 + (h << 6) + (h >> 2)
	h *= 0xBF58476D1CE4E5B9
	return h ^ (h >> 29)
}

//go:norace
func (s *sched) rand() uint64 {
	s.rng ^= s.rng << 13
	s.rng ^= s.rng >> 7
	s.rng ^= s.rng << 17
	return s.rng
}

// Run executes root as task 0 on the calling goroutine under the schedule and
// returns what happened. Tasks spawned with Go (directly or through the
// go-parallel stub) are scheduled by the simulator; Run returns when root has
// returned and every task has finished (or a deadlock was detected).
//
//go:norace
func Run(sc *Schedule, root func()) *Result {
	Quiesce(5 * time.Second)
	s := &sched{sc: sc, res: &Result{}, rng: sc.Seed | 1, rootCh: make(chan struct{})}
	t0 := &task{id: 0, wake: make(chan struct{}), started: true, parent: -1, prio: sc.Prio[0]}
	s.tasks[0] = t0
	s.ntasks = 1
	s.cur = t0
	cur = s
	active = true
	root()
	// root returned: wait until all other tasks are done
	joinAll(s, t0)
	active = false
	cur = nil
	s.res.Tasks = int(s.ntasks)
	for i := int32(0); i < s.ntasks; i++ {
		if s.tasks[i].steps > 0 {
			s.res.TasksStepped++
		}
	}
	return s.res
}

//go:norace
func joinAll(s *sched, me *task) {
	for {
		live := false
		for i := int32(1); i < s.ntasks; i++ {
			if !s.tasks[i].done {
				live = true
			}
		}
		if !live || s.res.Deadlock {
			return
		}
		me.blocked, me.waitKids = true, true
		if !s.handOff(me, -1) {
			return
		}
	}
}

// Go starts f as a new task (child of the current one). Outside a run it is a
// plain go statement.
//
//go:norace
func Go(f func()) {
	if !active {
		atomic.AddInt64(&stray, 1)
		go strayMain(f)
		return
	}
	s := cur
	if s.ntasks >= MaxTasks {
		panic(LimitExceeded("simrt: too many tasks"))
	}
	parent := s.cur
	t := &task{id: s.ntasks, wake: make(chan struct{}), parent: parent.id, prio: s.sc.Prio[s.ntasks%MaxTasks]}
	s.tasks[s.ntasks] = t
	s.ntasks++
	parent.kids++
	if parent.id != 0 {
		s.res.Probes[ProbeNested]++
	}
	go taskMain(s, t, f) // a real go statement: the parent->child edge is visible to the race detector
	// creation is a scheduling point
	s.maybePreempt(-2, true)
}

func strayMain(f func()) {
	defer atomic.AddInt64(&stray, -1)
	f()
}

// Quiesce waits (up to the given time) until no goroutine started outside a run
// is still alive; it reports whether that was achieved.
func Quiesce(max time.Duration) bool {
	deadline := time.Now().Add(max)
	for atomic.LoadInt64(&stray) > 0 {
		if time.Now().After(deadline) {
			return false
		}
		time.Sleep(200 * time.Microsecond)
	}
	return true
}

//go:norace
func taskMain(s *sched, t *task, f func()) {
	raceOff()
	<-t.wake
	raceOn()
	t.started = true
	defer taskExit(s, t)
	f()
}

//go:norace
func taskExit(s *sched, t *task) {
	// runs as a deferred call, also when f panicked: the panic continues to
	// unwind after the token has been handed on
	t.done = true
	if t.parent >= 0 {
		p := s.tasks[t.parent]
		p.kids--
	}
	s.wakeWaiters()
	s.handOff(t, -3)
}

// wakeWaiters makes runnable every task whose wait condition has ended.
//
//go:norace
func (s *sched) wakeWaiters() {
	for i := int32(0); i < s.ntasks; i++ {
		w := s.tasks[i]
		if !w.blocked || !w.waitKids {
			continue
		}
		if w.id == 0 {
			live := false
			for j := int32(1); j < s.ntasks; j++ {
				if !s.tasks[j].done {
					live = true
				}
			}
			if !live {
				w.blocked, w.waitKids = false, false
			}
		} else if w.kids == 0 {
			w.blocked, w.waitKids = false, false
		}
	}
}

// JoinChildren parks the current task until all tasks it spawned are done.
//
//go:norace
func JoinChildren() {
	if !active {
		return
	}
	s := cur
	me := s.cur
	for me.kids > 0 && !s.res.Deadlock {
		me.blocked, me.waitKids = true, true
		if !s.handOff(me, -4) {
			return
		}
	}
}

// Step accounting: every instrumented statement counts as one step, inside and
// outside simulated runs. Steps are the deterministic stand-in for time that the
// code under test spends in its own loops: a budget can be armed, and the
// statement that exceeds it panics with StepBudgetExceeded (and so does every
// later one until the budget is reset, so that loops unwind even where the code
// under test recovers from panics).
var (
	stepCount int64
	stepLimit int64
	tripped   bool
)

// LimitExceeded is the panic value raised when a run outgrows a fixed table of
// the simulator (a limit of the harness, never a fault of the code under test).
type LimitExceeded string

// StepBudgetExceeded is the panic value raised when the armed budget runs out.
type StepBudgetExceeded struct{ Limit int64 }

func (e StepBudgetExceeded) Error() string {
	return "simrt: step budget exceeded"
}

// ResetSteps zeroes the step counter and arms a budget (0: none).
//
//go:norace
func ResetSteps(limit int64) { stepCount, stepLimit, tripped = 0, limit, false }

// Steps returns the number of instrumented statements executed since ResetSteps.
//
//go:norace
func Steps() int64 { return stepCount }

// Tripped reports whether the armed budget was exceeded.
//
//go:norace
func Tripped() bool { return tripped }

// Yield is a scheduling point; site identifies the statement about to run.
//
//go:norace
func Yield(site int32) {
	stepCount++
	if stepLimit > 0 && stepCount > stepLimit {
		tripped = true
		panic(StepBudgetExceeded{stepLimit})
	}
	if !active {
		return
	}
	s := cur
	t := s.cur
	t.steps++
	s.res.Steps++
	s.res.SeqHash = mix(s.res.SeqHash, uint64(t.id)<<32|uint64(uint32(site)))
	s.maybePreempt(site, false)
}

//go:norace
func (s *sched) maybePreempt(site int32, creation bool) {
	sc := s.sc
	if sc.MaxSteps > 0 && s.res.Steps > sc.MaxSteps {
		return // step cap: finish serially
	}
	isHot := site >= 0 && int(site) < len(hot) && hot[site]
	pre := false
	switch sc.Kind {
	case SerialPerm:
		pre = false
	case RandomWalk:
		pre = uint32(s.rand()%1000) < sc.Permille
	case PCT:
		for i := 0; i < sc.NPoint; i++ {
			if sc.Points[i] == s.res.Steps {
				// priority change point: the running task drops below everyone
				s.cur.prio = 0
				pre = true
			}
		}
		if creation {
			pre = true // a newly created task may have a higher priority
		}
	case SiteBias:
		if isHot {
			s.hotN++
			for i := 0; i < sc.NPoint; i++ {
				if sc.Points[i] == s.hotN {
					pre = true
				}
			}
		}
	}
	if !pre {
		return
	}
	if isHot {
		s.res.Probes[ProbeHotPreempt]++
	}
	if s.onceIn > 0 {
		s.res.Probes[ProbePreemptedInsideOnce]++
	}
	s.handOff(s.cur, site)
}

// choose returns the next task to run (nil if none is runnable).
//
//go:norace
func (s *sched) choose(exclude *task, allowSelf bool) *task {
	var run [MaxTasks]*task
	n := 0
	for i := int32(0); i < s.ntasks; i++ {
		t := s.tasks[i]
		if t.done || t.blocked {
			continue
		}
		if t == exclude && !allowSelf {
			continue
		}
		run[n] = t
		n++
	}
	if n == 0 {
		return nil
	}
	switch s.sc.Kind {
	case PCT:
		best := run[0]
		for i := 1; i < n; i++ {
			if run[i].prio > best.prio {
				best = run[i]
			}
		}
		return best
	case RandomWalk:
		return run[int(s.rand()%uint64(n))]
	default:
		k := s.sc.Picks[s.pick%len(s.sc.Picks)]
		s.pick++
		return run[int(k)%n]
	}
}

// handOff gives the token to another runnable task and parks the caller until
// it is given back. When the caller is done it does not park. Returns false
// when nothing can run (deadlock) and the caller is not runnable either.
//
//go:norace
func (s *sched) handOff(me *task, site int32) bool {
	meRunnable := !me.done && !me.blocked
	var next *task
	if s.sc.Kind == PCT && meRunnable {
		next = s.choose(nil, true)
		if next == me {
			return true
		}
	} else {
		next = s.choose(me, false)
	}
	if next == nil {
		if meRunnable {
			return true // nobody else can run: keep going
		}
		if me.done {
			// a finishing task with nobody to hand the token to. When every other
			// task is done too, root has been made runnable by wakeWaiters and was
			// chosen above; getting here means the rest are parked for ever (a
			// goroutine the code under test leaves blocked on a channel, say):
			// that is a deadlock of the run, and root must be told - or nobody
			// would hold the token any more
			alive := false
			for i := int32(1); i < s.ntasks; i++ {
				if t := s.tasks[i]; t != me && !t.done {
					alive = true
				}
			}
			root := s.tasks[0]
			if !alive || me == root {
				return true
			}
			s.res.Deadlock = true
			root.blocked, root.waitKids, root.waitObj, root.nsel = false, false, 0, 0
			s.cur = root
			raceOff()
			root.wake <- struct{}{}
			raceOn()
			return false
		}
		// the caller must block but nobody can run: deadlock. Root is told and
		// ends the run; the stuck task stays parked for ever.
		s.res.Deadlock = true
		root := s.tasks[0]
		if me == root {
			me.blocked, me.waitKids, me.waitObj = false, false, 0
			return false
		}
		root.blocked, root.waitKids, root.waitObj = false, false, 0
		s.cur = root
		raceOff()
		root.wake <- struct{}{}
		<-me.wake // never signalled
		raceOn()
		return false
	}
	if n := s.res.NSwitch; n < MaxSwitches {
		s.res.Switches[n] = Switch{Step: s.res.Steps, From: me.id, To: next.id, Site: site}
	}
	s.res.NSwitch++
	s.cur = next
	raceOff()
	next.wake <- struct{}{}
	if !me.done {
		<-me.wake
	}
	raceOn()
	return true
}

// ---------------------------------------------------------------- blocking

// blockOn parks the current task on obj until wake(obj).
//
//go:norace
func blockOn(obj uintptr) bool {
	s := cur
	me := s.cur
	me.blocked, me.waitObj = true, obj
	return s.handOff(me, -5)
}

//go:norace
func wake(obj uintptr) {
	s := cur
	for i := int32(0); i < s.ntasks; i++ {
		t := s.tasks[i]
		if !t.blocked {
			continue
		}
		if t.waitObj == obj && obj != 0 {
			t.blocked, t.waitObj = false, 0
			continue
		}
		for j := 0; j < t.nsel; j++ {
			if t.sel[j].key == obj {
				t.blocked, t.nsel = false, 0
				break
			}
		}
	}
}

//go:norace
func probe(i int) {
	if active {
		cur.res.Probes[i]++
	}
}
