module verif.local/simrt

go 1.21
