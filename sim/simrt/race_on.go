//go:build race

package simrt

import "runtime"

const RaceEnabled = true

//go:norace
func raceOff() { runtime.RaceDisable() }

//go:norace
func raceOn() { runtime.RaceEnable() }

// RaceErrors is the number of race reports so far in this process.
func RaceErrors() int { return runtime.RaceErrors() }
