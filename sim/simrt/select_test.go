package simrt

import "testing"

func walk(seed uint64) *Schedule {
	return &Schedule{Kind: RandomWalk, Permille: 300, Seed: seed}
}

// producer/consumer pairs that meet in selects on unbuffered channels, with a
// plain variable handed over: the rendezvous must order the accesses (no race
// report under -race), deliver every value once and never deadlock.
func TestSelectRendezvous(t *testing.T) {
	for seed := uint64(1); seed <= 300; seed++ {
		var got [2][]int
		res := Run(walk(seed), func() {
			a := make(chan int)
			b := make(chan int)
			quit := make(chan struct{})
			var shared [8]int
			var wg WaitGroup
			wg.Add(2)
			Go(func() { // producer: offers on whichever channel is taken
				defer wg.Done()
				for i := 1; i <= 6; i++ {
					Yield(1)
					shared[i] = i * 10
					switch c0, c1 := SendCase(a, i), SendCase(b, i); Select(false, c0, c1) {
					case 0, 1:
					}
				}
				Yield(2)
				Close(quit)
			})
			Go(func() { // consumer: select over both plus quit
				defer wg.Done()
				for {
					Yield(3)
					switch c0, c1, c2 := RecvCase(a), RecvCase(b), RecvCase(quit); Select(false, c0, c1, c2) {
					case 0:
						if shared[c0.V] != c0.V*10 {
							t.Errorf("seed %d: shared=%v v=%d", seed, shared, c0.V)
						}
						got[0] = append(got[0], c0.V)
					case 1:
						if shared[c1.V] != c1.V*10 {
							t.Errorf("seed %d: shared=%v v=%d", seed, shared, c1.V)
						}
						got[1] = append(got[1], c1.V)
					case 2:
						if c2.Ok {
							t.Errorf("seed %d: quit delivered a value", seed)
						}
						return
					}
				}
			})
			wg.Wait()
		})
		if res.Deadlock {
			t.Fatalf("seed %d: deadlock", seed)
		}
		if len(got[0])+len(got[1]) != 6 {
			t.Fatalf("seed %d: got %v", seed, got)
		}
	}
}

// plain operations meeting select cases, both directions; default clause; nil
// channel cases never fire.
func TestSelectMixed(t *testing.T) {
	both := 0
	for seed := uint64(1); seed <= 300; seed++ {
		res := Run(walk(seed), func() {
			c := make(chan int)
			d := make(chan int, 1)
			var none chan int
			switch c0, c1 := RecvCase(c), RecvCase(none); Select(true, c0, c1) {
			case 0, 1:
				t.Errorf("seed %d: empty channels ready", seed)
			}
			var wg WaitGroup
			wg.Add(2)
			Go(func() {
				defer wg.Done()
				Yield(1)
				Send(c, 7)
				Yield(2)
				v := Recv(c)
				if v != 8 {
					t.Errorf("seed %d: v=%d", seed, v)
				}
			})
			Go(func() {
				defer wg.Done()
				Yield(3)
				switch c0, c1 := RecvCase(c), RecvCase(none); Select(false, c0, c1) {
				case 0:
					if c0.V != 7 || !c0.Ok {
						t.Errorf("seed %d: %v %v", seed, c0.V, c0.Ok)
					}
				default:
					t.Errorf("seed %d: wrong case", seed)
				}
				Yield(4)
				switch c0, c1 := SendCase(c, 8), SendCase(d, 9); Select(false, c0, c1) {
				case 0:
				case 1:
					both++
					Yield(5)
					Send(c, 8)
				}
			})
			wg.Wait()
		})
		if res.Deadlock {
			t.Fatalf("seed %d: deadlock", seed)
		}
	}
	if both == 0 || both == 300 {
		t.Errorf("choice among ready cases never varied: %d of 300", both)
	}
}

// a select nobody can complete is a deadlock of the simulated run, not a hang
func TestSelectDeadlock(t *testing.T) {
	res := Run(walk(1), func() {
		c := make(chan int)
		Go(func() {
			Yield(1)
			switch c0 := RecvCase(c); Select(false, c0) {
			case 0:
			}
		})
		JoinChildren()
	})
	if !res.Deadlock {
		t.Fatal("no deadlock reported")
	}
}

// a task parked for ever (a goroutine the code under test leaves blocked) while
// the last running task finishes: the run must end as a deadlock, not hang with
// nobody holding the token
func TestLeakedBlockedTaskEndsTheRun(t *testing.T) {
	for seed := uint64(1); seed <= 100; seed++ {
		res := Run(walk(seed), func() {
			c := make(chan int)
			Go(func() { Yield(1); Send(c, 1) }) // nobody ever receives
			Go(func() {
				for i := 0; i < 5; i++ {
					Yield(2)
				}
			})
			Yield(3)
		})
		if !res.Deadlock {
			t.Fatalf("seed %d: no deadlock reported", seed)
		}
	}
}
