package taskprops

import (
	"fmt"
	"image"
	"image/color"
	"image/draw"
	"verif.local/sim/core"

	"github.com/mandykoh/prism/adobergb"
	"github.com/mandykoh/prism/displayp3"
	"github.com/mandykoh/prism/linear"
	"github.com/mandykoh/prism/prophotorgb"
	"github.com/mandykoh/prism/srgb"

	"verif.local/sim/tape"
	"verif.local/simrt"
)

// C10 — image linearise/encode is the per-pixel function, everywhere and only
// there.
type c10 struct{}

func init() { register(c10{}) }

func (c10) ID() string    { return "C10" }
func (c10) Level() string { return "exploration" }
func (c10) Rule() string {
	return "each run draws a source (RGBA64, NRGBA64, RGBA, NRGBA, Gray, Gray16, CMYK, Paletted, Alpha, Alpha16, YCbCr x 6 subsamplings, or any of them behind an opaque wrapper), bounds with origins in [-6,6] incl. empty, 1xN, Nx1, up to 12x12, optionally as a sub-image of a larger sentinel-filled parent, a destination (RGBA64, RGBA, NRGBA, NRGBA64, or opaque wrapper; same size or larger; own origin; optionally a sub-image; or in place), one of the 8 space transforms or TransformImageColor with a channel-permuting function, parallelism in {1,2,3,7,16,rows+5}, and a schedule (SERIAL-PERM, RANDOM-WALK p, PCT d<=3, SITE-BIAS preempting inside the worker closures). The library's worker goroutines run as tasks of the seeded scheduler with a yield before every statement. Reference model: sequential, from a snapshot of the source, ref.Set(dstMin+(p-srcMin), f(snapshot.At(p))) on a clone of the destination's parent. Oracle: every byte of the destination's parent equals the reference; race detector silent; no panic; no deadlock. Non-trivial: >= 2 tasks executed instrumented steps and >= 1 context switch; distinct = hash of the (task, site) step sequence and the configuration."
}
func (c10) Exhaustive(string) string { return "" }
func (c10) Runs(tier string) int64 {
	if tier == "thorough" {
		return 4000000
	}
	return 24000
}
func (c10) Prefix(string, int64) []uint64 { return nil }

type transform struct {
	name  string
	image func(dst draw.Image, src image.Image, parallelism int)
	color func(color.Color) color.RGBA64
}

func permute(c color.Color) color.RGBA64 {
	r, g, b, a := c.RGBA()
	return color.RGBA64{R: uint16(g), G: uint16(b) ^ 0x0101, B: uint16(r), A: uint16(a)}
}

var transforms = []transform{
	{"srgb.LineariseImage", srgb.LineariseImage, srgb.LineariseColor},
	{"srgb.EncodeImage", srgb.EncodeImage, srgb.EncodeColor},
	{"adobergb.LineariseImage", adobergb.LineariseImage, adobergb.LineariseColor},
	{"adobergb.EncodeImage", adobergb.EncodeImage, adobergb.EncodeColor},
	{"prophotorgb.LineariseImage", prophotorgb.LineariseImage, prophotorgb.LineariseColor},
	{"prophotorgb.EncodeImage", prophotorgb.EncodeImage, prophotorgb.EncodeColor},
	{"displayp3.LineariseImage", displayp3.LineariseImage, displayp3.LineariseColor},
	{"displayp3.EncodeImage", displayp3.EncodeImage, displayp3.EncodeColor},
	{"linear.TransformImageColor(permute)", func(dst draw.Image, src image.Image, par int) { linear.TransformImageColor(dst, src, par, permute) }, permute},
}

var warmed bool

// WarmTables builds every lazily initialised table from a single goroutine
// outside any simulated run, so that in-process runs all start from the same
// state (first use is C11's subject, in fresh processes).
func WarmTables() {
	if warmed {
		return
	}
	warmed = true
	srgb.From16Bit(1)
	srgb.To16Bit(0.5)
	adobergb.From16Bit(1)
	adobergb.To16Bit(0.5)
	prophotorgb.From16Bit(1)
	prophotorgb.To16Bit(0.5)
}

var dstKinds = []int{kRGBA64, kRGBA, kNRGBA, kNRGBA64}

func parallelismOf(t *tape.Tape, rows int) int {
	over := rows + 5 // more workers than rows
	if over > 300 {
		over = 300 // long images: the simulator's task table holds 512 tasks
	}
	return [...]int{1, 2, 3, 7, 16, over}[t.Intn(6)]
}

// harnessLimit turns a panic raised by the simulator itself (a fixed table
// outgrown) into a harness error: exit 2, never a verdict about the tree.
func harnessLimit(p interface{}) {
	if l, ok := p.(simrt.LimitExceeded); ok {
		panic(&core.HarnessError{Msg: string(l)})
	}
}

func (c10) Run(t *tape.Tape, st *Stats) *Violation {
	WarmTables()
	st.Evals++
	tr := transforms[t.Intn(len(transforms))]
	srcKind := t.Intn(nKinds)
	rect := drawRect(t, 12)
	src := makeImg(t, srcKind, rect, t.Bool())
	rect = src.Rect
	srcOpaque := t.Chance(1, 6)
	inPlace := false
	var dst *Img
	if (srcKind == kRGBA64 || srcKind == kRGBA || srcKind == kNRGBA || srcKind == kNRGBA64) && t.Chance(1, 3) {
		inPlace = true
		dst = src
	} else {
		dk := dstKinds[t.Intn(len(dstKinds))]
		dx, dy := t.Range(-6, 6), t.Range(-6, 6)
		ew, eh := t.Pick(3, 1, 1), t.Pick(3, 1, 1)
		dr := image.Rect(dx, dy, dx+rect.Dx()+ew, dy+rect.Dy()+eh)
		dst = makeImg(t, dk, dr, t.Bool())
	}
	dstOpaque := t.Chance(1, 5)
	par := parallelismOf(t, rect.Dy())
	sc, scDesc := DrawSchedule(t, [4]int{2, 3, 3, 4})
	pre := drawEarlier(t, srcKind, rect, src)
	var preDst *Img
	if pre.On {
		preDst = makeImg(t, dst.Kind, image.Rectangle{Min: dst.Rect.Min, Max: dst.Rect.Min.Add(pre.Img.Rect.Size())}, t.Bool())
		simrt.ResetSteps(2000000)
		pre.run(func() { tr.image(preDst.View.(draw.Image), pre.Img.View, pre.Par) })
		simrt.ResetSteps(0)
		pre.mutate()
	}

	// reference model, computed before the run from a snapshot
	snap := src.clone()
	ref := dst.clone()
	refDraw := ref.View.(draw.Image)
	off := dst.Rect.Min.Sub(src.Rect.Min)
	for y := src.Rect.Min.Y; y < src.Rect.Max.Y; y++ {
		for x := src.Rect.Min.X; x < src.Rect.Max.X; x++ {
			refDraw.Set(x+off.X, y+off.Y, tr.color(snap.View.At(x, y)))
		}
	}

	var srcArg image.Image = src.View
	if srcOpaque {
		srcArg = opaqueImage{src.View}
	}
	var dstArg draw.Image = dst.View.(draw.Image)
	if dstOpaque {
		dstArg = opaqueDraw{dstArg}
	}
	simrt.ResetSteps(2000000) // a run of this size takes a few thousand steps; beyond the budget it is a livelock
	defer simrt.ResetSteps(0)
	racesBefore := simrt.RaceErrors()
	var panicked interface{}
	var atReturn [][]uint8
	res := simrt.Run(sc, func() {
		defer func() { panicked = recover() }()
		tr.image(dstArg, srcArg, par)
		// the caller looks at the destination as soon as the call has returned
		// (workers that are still running then are a defect: their writes race
		// with this read and the picture is incomplete)
		atReturn = snapshotPlanes(dst.Parent)
	})
	races := simrt.RaceErrors() - racesBefore
	harnessLimit(panicked)

	path := "generic"
	switch {
	case dstOpaque:
	case dst.Kind == kRGBA64 && src.Kind == kRGBA64 && !srcOpaque:
		path = "fastpath_RGBA64_RGBA64"
	case dst.Kind == kRGBA64:
		path = "fastpath_RGBA64_other"
	case dst.Kind == kRGBA:
		path = "fastpath_RGBA"
	}
	st.Class(path)
	st.Steps += res.Steps
	st.Digest = tape.Mix(st.Digest, res.SeqHash, uint64(res.NSwitch))
	st.LogHash(res.SeqHash)
	st.Fault("preemption", sc.Kind != simrt.SerialPerm, res.NSwitch > par+1)
	st.Fault("preemption_inside_worker_closure", sc.Kind == simrt.SiteBias, res.Probes[simrt.ProbeHotPreempt] > 0)
	st.Probe("in_place", inPlace)
	st.Probe("earlier_call_in_the_same_run", pre.On)
	st.Probe("sub_image_destination", dst.Parent.Bounds() != dst.Rect)
	st.Probe("destination_larger_than_source", !inPlace && dst.Rect.Size() != src.Rect.Size())
	st.Probe("parallelism_gt_rows", par > rect.Dy())
	st.Probe("empty_source", rect.Empty())
	st.Probe("workers_preempted_mid_row", res.Probes[simrt.ProbeHotPreempt] > 0)
	if res.TasksStepped >= 2 && res.NSwitch >= 1 {
		st.Mark(tape.Mix(res.SeqHash, tape.HashString(tr.name+path), uint64(srcKind), uint64(par)))
	}
	desc := fmt.Sprintf("%s src=%s%v%s dst=%s%v%s inPlace=%v par=%d", tr.name, kindNames[src.Kind], src.Rect, subNote(src, srcOpaque), kindNames[dst.Kind], dst.Rect, subNote(dst, dstOpaque), inPlace, par) + pre.Desc
	render := func() interface{} {
		return map[string]interface{}{"case": desc, "schedule": scDesc, "steps": res.Steps, "tasks": res.Tasks, "context_switches": SwitchList(res), "path": path}
	}
	if st.WantSample() {
		st.Sample(render())
	}
	fail := func(class, sig, detail string) *Violation {
		r := render().(map[string]interface{})
		if races > 0 {
			r["race_report"] = trimText(lastRace, 6000)
		}
		return &Violation{Class: class, Sig: sig, Detail: detail + " [" + desc + "; " + scDesc + "]", Render: r, OwnHistory: pre.On}
	}
	if races > 0 {
		lastRace = NewRaceText()
		coarse, detail := RaceSignature(lastRace)
		return fail("data-race", "data-race:"+coarse, fmt.Sprintf("%d race report(s), first: %s", races, detail))
	}
	if _, ok := panicked.(simrt.StepBudgetExceeded); ok || simrt.Tripped() {
		return fail("livelock", "livelock:"+path, "step budget of 2000000 instrumented statements exceeded: a worker does not terminate")
	}
	if panicked != nil {
		return fail("panic", "panic:"+path, fmt.Sprintf("panic: %v", panicked))
	}
	if res.Deadlock {
		return fail("deadlock", "deadlock", "all tasks blocked")
	}
	if atReturn != nil {
		if ok, why := planesEqual(atReturn, ref.Parent); !ok {
			if okFinal, _ := samePlanes(dst.Parent, ref.Parent); okFinal {
				return fail("incomplete-at-return", "incomplete-at-return:"+path, why+" in the destination when the call returned; the backing store became correct only later (work still running after the return)")
			}
		}
	}
	if ok, why := samePlanes(dst.Parent, ref.Parent); !ok {
		class := "pixel-differs"
		var idx int
		fmt.Sscanf(why, "plane 0 byte %d", &idx)
		if pt, okp := pixelOf(dst.Parent, idx); okp && !pt.In(image.Rectangle{Min: dst.Rect.Min, Max: dst.Rect.Min.Add(src.Rect.Size())}) {
			class = "outside-write"
		}
		return fail(class, class+":"+path, why+" in the destination's backing store")
	}
	if !inPlace {
		if ok, why := samePlanes(src.Parent, snap.Parent); !ok {
			return fail("source-modified", "source-modified:"+path, why+" in the source's backing store")
		}
	}
	return nil
}

var lastRace string

func subNote(im *Img, opaque bool) string {
	s := ""
	if im.Parent.Bounds() != im.Rect {
		s += fmt.Sprintf("(sub of %v)", im.Parent.Bounds())
	}
	if opaque {
		s += "(opaque)"
	}
	return s
}

func trimText(s string, n int) string {
	if len(s) > n {
		return s[:n] + "…"
	}
	return s
}
