package taskprops

import (
	"fmt"
	"image"
	"image/color"
	"image/draw"

	"verif.local/sim/tape"
)

// image kinds
const (
	kRGBA64 = iota
	kNRGBA64
	kRGBA
	kNRGBA
	kGray
	kGray16
	kCMYK
	kPaletted
	kAlpha
	kYCbCr444
	kYCbCr422
	kYCbCr420
	kYCbCr440
	kYCbCr411
	kYCbCr410
	kAlpha16
	kNYCbCrA444
	kNYCbCrA420
	nKinds
)

var kindNames = [...]string{"RGBA64", "NRGBA64", "RGBA", "NRGBA", "Gray", "Gray16", "CMYK", "Paletted", "Alpha",
	"YCbCr444", "YCbCr422", "YCbCr420", "YCbCr440", "YCbCr411", "YCbCr410", "Alpha16", "NYCbCrA444", "NYCbCrA420"}

var ycbcrRatios = map[int]image.YCbCrSubsampleRatio{
	kYCbCr444: image.YCbCrSubsampleRatio444, kYCbCr422: image.YCbCrSubsampleRatio422, kYCbCr420: image.YCbCrSubsampleRatio420,
	kYCbCr440: image.YCbCrSubsampleRatio440, kYCbCr411: image.YCbCrSubsampleRatio411, kYCbCr410: image.YCbCrSubsampleRatio410,
}

// Img is a (sub-)image together with the parent that owns the pixel memory.
type Img struct {
	Kind   int
	Parent image.Image
	Rect   image.Rectangle
	View   image.Image
}

type subImager interface {
	SubImage(r image.Rectangle) image.Image
}

func newParent(kind int, r image.Rectangle) image.Image {
	switch kind {
	case kRGBA64:
		return image.NewRGBA64(r)
	case kNRGBA64:
		return image.NewNRGBA64(r)
	case kRGBA:
		return image.NewRGBA(r)
	case kNRGBA:
		return image.NewNRGBA(r)
	case kGray:
		return image.NewGray(r)
	case kGray16:
		return image.NewGray16(r)
	case kCMYK:
		return image.NewCMYK(r)
	case kAlpha:
		return image.NewAlpha(r)
	case kAlpha16:
		return image.NewAlpha16(r)
	case kPaletted:
		pal := make(color.Palette, 7)
		for i := range pal {
			pal[i] = color.NRGBA{uint8(i * 37), uint8(255 - i*29), uint8(i * i * 5), uint8(255 - (i%3)*100)}
		}
		return image.NewPaletted(r, pal)
	case kNYCbCrA444:
		return image.NewNYCbCrA(r, image.YCbCrSubsampleRatio444)
	case kNYCbCrA420:
		return image.NewNYCbCrA(r, image.YCbCrSubsampleRatio420)
	default:
		return image.NewYCbCr(r, ycbcrRatios[kind])
	}
}

// planes returns every pixel buffer of an image (for filling, cloning and
// comparing).
func planes(img image.Image) [][]uint8 {
	switch p := img.(type) {
	case *image.RGBA64:
		return [][]uint8{p.Pix}
	case *image.NRGBA64:
		return [][]uint8{p.Pix}
	case *image.RGBA:
		return [][]uint8{p.Pix}
	case *image.NRGBA:
		return [][]uint8{p.Pix}
	case *image.Gray:
		return [][]uint8{p.Pix}
	case *image.Gray16:
		return [][]uint8{p.Pix}
	case *image.CMYK:
		return [][]uint8{p.Pix}
	case *image.Alpha:
		return [][]uint8{p.Pix}
	case *image.Alpha16:
		return [][]uint8{p.Pix}
	case *image.Paletted:
		return [][]uint8{p.Pix}
	case *image.YCbCr:
		return [][]uint8{p.Y, p.Cb, p.Cr}
	case *image.NYCbCrA:
		return [][]uint8{p.Y, p.Cb, p.Cr, p.A}
	}
	panic(fmt.Sprintf("planes: unexpected image type %T", img))
}

// cloneParent deep-copies an image that owns its whole pixel memory.
func cloneParent(kind int, img image.Image) image.Image {
	c := newParent(kind, img.Bounds())
	src, dst := planes(img), planes(c)
	for i := range src {
		copy(dst[i], src[i])
	}
	if p, ok := img.(*image.Paletted); ok {
		cp := c.(*image.Paletted)
		cp.Palette = append(color.Palette{}, p.Palette...)
	}
	return c
}

func (im *Img) clone() *Img {
	p := cloneParent(im.Kind, im.Parent)
	return &Img{Kind: im.Kind, Parent: p, Rect: im.Rect, View: p.(subImager).SubImage(im.Rect)}
}

// drawRect draws bounds: origins in [-6,6], sizes with empty / 1xN / Nx1 cases.
func drawRect(t *tape.Tape, maxSide int) image.Rectangle {
	x0, y0 := t.Range(-6, 6), t.Range(-6, 6)
	var w, h int
	switch t.Pick(24, 4, 4, 4, 1) {
	case 0:
		w, h = 1+t.Intn(maxSide), 1+t.Intn(maxSide)
	case 1:
		w, h = 1, 1+t.Intn(maxSide)
	case 2:
		w, h = 1+t.Intn(maxSide), 1
	case 3:
		w, h = t.Intn(2), t.Intn(3) // empty
	case 4:
		// one run in 37: a side beyond the thresholds small images never reach
		// (8-bit counters, 64 / 128 / 256-row or -pixel blocks, more rows than any
		// parallelism drawn), the other side small so that the run stays cheap
		long := [...]int{63, 64, 65, 127, 128, 129, 255, 256, 257, 300, 513, 1025, 4097, 8193, 9001}[t.Intn(15)]
		short := 1 + t.Intn(4)
		if t.Bool() {
			w, h = long, short
		} else {
			w, h = short, long
		}
		if t.Chance(1, 6) {
			w, h = 64+t.Intn(3), 64+t.Intn(3)
		}
	}
	return image.Rect(x0, y0, x0+w, y0+h)
}

// makeImg builds an image of the kind covering rect, as a sub-image of a parent
// that is larger by the given margins; the parent is filled with drawn bytes
// (extremes included), so pixels outside rect act as sentinels.
func makeImg(t *tape.Tape, kind int, rect image.Rectangle, sub bool) *Img {
	return makeImgNeg(t, kind, rect, sub, false)
}

// makeImgNeg is makeImg; with negYCbCr, a third of the subsampled sub-images
// that were drawn at negative coordinates stay there, inside a parent with
// eight pixels of slack on every side: image.YCbCr addresses chroma with
// truncating division, which below zero is not the sample a decoder would
// mean but is well defined, within the buffers given the slack, and what
// draw.Draw reads too (the caller still guards the reference with recover).
func makeImgNeg(t *tape.Tape, kind int, rect image.Rectangle, sub, negYCbCr bool) *Img {
	subsampled := (kind >= kYCbCr444 && kind <= kYCbCr410) || kind == kNYCbCrA444 || kind == kNYCbCrA420
	keepNeg := false
	if negYCbCr && sub && subsampled && (rect.Min.X < 0 || rect.Min.Y < 0) {
		keepNeg = t.Chance(1, 3)
	}
	if subsampled && !keepNeg && (rect.Min.X < 3 || rect.Min.Y < 3) {
		// image.YCbCr's chroma offset arithmetic (integer division truncating
		// towards zero) is only right for non-negative coordinates: the standard
		// library itself panics or mis-addresses below zero, so subsampled sources
		// get non-negative origins
		d := image.Pt(0, 0)
		if rect.Min.X < 3 {
			d.X = 3 - rect.Min.X
		}
		if rect.Min.Y < 3 {
			d.Y = 3 - rect.Min.Y
		}
		rect = rect.Add(d)
	}
	pr := rect
	if sub {
		pr = image.Rect(rect.Min.X-t.Intn(3), rect.Min.Y-t.Intn(3), rect.Max.X+t.Intn(3), rect.Max.Y+t.Intn(3))
	}
	if keepNeg {
		pr = image.Rect(pr.Min.X-8, pr.Min.Y-8, pr.Max.X+8, pr.Max.Y+8)
	}
	parent := newParent(kind, pr)
	r := t.Sub()
	if p, ok := parent.(*image.Paletted); ok {
		// palette drawn per run: 1-256 entries of mixed colour types, translucent
		// and fully transparent non-premultiplied entries included
		n := 1 + r.Intn(256)
		switch r.Intn(6) {
		case 0, 1:
			n = 1 + r.Intn(8)
		case 2:
			n = 256 // the full index range: every pixel byte is a valid index
		}
		pal := make(color.Palette, n)
		for i := range pal {
			a := uint8(r.Intn(256))
			switch r.Intn(4) {
			case 0:
				a = 0
			case 1:
				a = uint8(1 + r.Intn(8))
			case 2:
				a = 255
			}
			switch r.Intn(4) {
			case 0:
				pal[i] = color.RGBA{uint8(r.Intn(int(a) + 1)), uint8(r.Intn(int(a) + 1)), uint8(r.Intn(int(a) + 1)), a}
			case 1:
				pal[i] = color.NRGBA64{uint16(r.Intn(65536)), uint16(r.Intn(65536)), uint16(r.Intn(65536)), uint16(a) * 257}
			default:
				pal[i] = color.NRGBA{uint8(r.Intn(256)), uint8(r.Intn(256)), uint8(r.Intn(256)), a}
			}
		}
		p.Palette = pal
	}
	mode := t.Pick(4, 1, 1, 1, 2)
	bpp, abytes := 1, 0 // bytes per pixel, trailing alpha bytes
	switch kind {
	case kRGBA64, kNRGBA64:
		bpp, abytes = 8, 2
	case kRGBA, kNRGBA:
		bpp, abytes = 4, 1
	case kCMYK:
		bpp = 4
	case kGray16, kAlpha16:
		bpp = 2
	}
	for _, pl := range planes(parent) {
		switch mode {
		case 4:
			// flat areas, shadows and soft edges: a few colours in runs; a pixel
			// often repeats its predecessor (in memory order, so also across the
			// end of a row) completely, in everything but alpha, or in everything
			// but one colour byte
			pool := make([][]uint8, 2+r.Intn(3))
			for i := range pool {
				pool[i] = make([]uint8, bpp)
				r.Fill(pool[i])
				if r.Intn(3) == 0 {
					for k := 0; k < bpp-abytes; k++ {
						pool[i][k] = 0 // black of any alpha
					}
				}
			}
			prev := pool[0]
			for o := 0; o+bpp <= len(pl); o += bpp {
				px := pl[o : o+bpp]
				switch r.Intn(6) {
				case 0:
					copy(px, pool[r.Intn(len(pool))])
				case 1, 2:
					copy(px, prev)
					if abytes > 0 {
						for k := bpp - abytes; k < bpp; k++ {
							px[k] = uint8(r.Intn(256))
						}
					}
				case 3:
					copy(px, prev)
					px[r.Intn(bpp)] ^= uint8(1 << uint(r.Intn(8)))
				default:
					copy(px, prev)
				}
				prev = px
			}
			continue
		}
		switch mode {
		case 0:
			r.Fill(pl)
		case 1:
			for i := range pl {
				pl[i] = 0xFF
			}
		case 2:
			for i := range pl {
				pl[i] = [...]uint8{0, 1, 0x7F, 0x80, 0xFE, 0xFF}[r.Intn(6)]
			}
		case 3:
			for i := range pl {
				pl[i] = uint8(i)
			}
		}
	}
	if p, ok := parent.(*image.Paletted); ok {
		for i := range p.Pix {
			p.Pix[i] = uint8(int(p.Pix[i]) % len(p.Palette))
		}
	}
	return &Img{Kind: kind, Parent: parent, Rect: rect, View: parent.(subImager).SubImage(rect)}
}

// opaque wrappers hide the concrete type (and every fast path keyed on it)
type opaqueImage struct{ image.Image }
type opaqueDraw struct{ draw.Image }

func samePlanes(a, b image.Image) (bool, string) {
	pa, pb := planes(a), planes(b)
	for i := range pa {
		if len(pa[i]) != len(pb[i]) {
			return false, fmt.Sprintf("plane %d has %d bytes, expected %d", i, len(pa[i]), len(pb[i]))
		}
		for j := range pa[i] {
			if pa[i][j] != pb[i][j] {
				return false, fmt.Sprintf("plane %d byte %d is %#02x, expected %#02x", i, j, pa[i][j], pb[i][j])
			}
		}
	}
	return true, ""
}

// pixelOf locates the pixel (and whether it lies inside rect) that owns byte
// index idx of the first plane of an interleaved image.
func pixelOf(img image.Image, idx int) (image.Point, bool) {
	var stride, bpp int
	switch p := img.(type) {
	case *image.RGBA64:
		stride, bpp = p.Stride, 8
	case *image.NRGBA64:
		stride, bpp = p.Stride, 8
	case *image.RGBA:
		stride, bpp = p.Stride, 4
	case *image.NRGBA:
		stride, bpp = p.Stride, 4
	default:
		return image.Point{}, false
	}
	b := img.Bounds()
	return image.Pt(b.Min.X+(idx%stride)/bpp, b.Min.Y+idx/stride), true
}

// snapshotPlanes copies every pixel buffer of an image (read by the calling
// goroutine: this is the caller looking at a result).
func snapshotPlanes(img image.Image) [][]uint8 {
	var out [][]uint8
	for _, pl := range planes(img) {
		out = append(out, append([]uint8(nil), pl...))
	}
	return out
}

func planesEqual(a [][]uint8, img image.Image) (bool, string) {
	b := planes(img)
	for i := range a {
		if len(a[i]) != len(b[i]) {
			return false, fmt.Sprintf("plane %d has %d bytes, expected %d", i, len(a[i]), len(b[i]))
		}
		for j := range a[i] {
			if a[i][j] != b[i][j] {
				return false, fmt.Sprintf("plane %d byte %d is %#02x, expected %#02x", i, j, a[i][j], b[i][j])
			}
		}
	}
	return true, ""
}
