// Package taskprops holds the engine-B checks (C10, C11, C15): real goroutines
// of the yield-instrumented copy of prism under simrt's seeded scheduler, with
// the race detector and sequential reference models as oracles.
package taskprops

import (
	"encoding/json"
	"fmt"
	"os"
	"path/filepath"
	"regexp"
	"sort"
	"strconv"
	"strings"

	"verif.local/sim/core"
	"verif.local/sim/tape"
	"verif.local/simrt"
)

type (
	Stats     = core.Stats
	Violation = core.Violation
)

var Registry = map[string]core.Prop{}

func register(p core.Prop) { Registry[p.ID()] = p }

// Site is one entry of the instrumenter's site table.
type Site struct {
	ID   int    `json:"id"`
	Pos  string `json:"pos"`
	Hot  bool   `json:"hot"`
	Func string `json:"func"`
}

var sites []Site

// LoadSites reads the site table named by VERIF_SITES and installs the hot-site
// flags in the scheduler. Called once at start-up, before any run.
func LoadSites() {
	p := os.Getenv("VERIF_SITES")
	if p == "" {
		return
	}
	b, err := os.ReadFile(p)
	if err != nil {
		return
	}
	json.Unmarshal(b, &sites)
	hot := make([]bool, len(sites))
	for i, s := range sites {
		hot[i] = s.Hot
	}
	simrt.SetHotSites(hot)
}

func sitePos(id int32) string {
	switch id {
	case -2:
		return "<task creation>"
	case -3:
		return "<task exit>"
	case -4:
		return "<join children>"
	case -5:
		return "<blocked>"
	case -1:
		return "<join all>"
	}
	if int(id) < len(sites) && id >= 0 {
		return sites[id].Pos
	}
	return fmt.Sprint(id)
}

var stratNames = [...]string{"SERIAL-PERM", "RANDOM-WALK", "PCT", "SITE-BIAS"}

// DrawSchedule draws a scheduling strategy and its parameters. All values the
// scheduler will need are fixed here, on the root goroutine.
func DrawSchedule(t *tape.Tape, kinds [4]int) (*simrt.Schedule, string) {
	sc := &simrt.Schedule{MaxSteps: 2000000}
	sc.Kind = t.Pick(kinds[0], kinds[1], kinds[2], kinds[3])
	for i := 0; i < 8; i++ {
		sc.Picks[i] = uint32(t.Draw(1 << 16))
	}
	r := t.Sub()
	for i := 8; i < len(sc.Picks); i++ {
		sc.Picks[i] = uint32(r.Uint64())
	}
	desc := stratNames[sc.Kind]
	switch sc.Kind {
	case simrt.RandomWalk:
		sc.Permille = [...]uint32{10, 50, 200, 500}[t.Intn(4)]
		sc.Seed = t.Draw(1<<32) + 1
		desc += fmt.Sprintf("(p=%d/1000)", sc.Permille)
	case simrt.PCT:
		d := 1 + t.Intn(3)
		k := [...]int{50, 500, 5000, 150000}[t.Intn(4)]
		pr := t.Sub()
		for i := range sc.Prio {
			sc.Prio[i] = 1 + uint32(pr.Uint64()%1000000)
		}
		sc.NPoint = d - 1
		for i := 0; i < sc.NPoint; i++ {
			sc.Points[i] = int64(1 + t.Intn(k))
		}
		desc += fmt.Sprintf("(d=%d, change points %v of ~%d steps)", d, sc.Points[:sc.NPoint], k)
	case simrt.SiteBias:
		n := 1 + t.Intn(3)
		k := [...]int{20, 200, 3000, 140000}[t.Intn(4)]
		sc.NPoint = n
		for i := 0; i < n; i++ {
			sc.Points[i] = int64(1 + t.Intn(k))
		}
		desc += fmt.Sprintf("(preempt at hot-site visits %v)", sc.Points[:n])
	}
	return sc, desc
}

// SwitchList renders the recorded context switches.
func SwitchList(res *simrt.Result) []string {
	n := res.NSwitch
	if n > simrt.MaxSwitches {
		n = simrt.MaxSwitches
	}
	var out []string
	for i := 0; i < n && i < 40; i++ {
		s := res.Switches[i]
		out = append(out, fmt.Sprintf("step %d: task %d -> task %d at %s", s.Step, s.From, s.To, sitePos(s.Site)))
	}
	if res.NSwitch > 40 {
		out = append(out, fmt.Sprintf("... %d switches in all", res.NSwitch))
	}
	return out
}

// ------------------------------------------------------------- race reports

var raceLogOff int64

func raceLogPath() string {
	g := os.Getenv("GORACE")
	for _, f := range strings.Fields(g) {
		if strings.HasPrefix(f, "log_path=") {
			return strings.TrimPrefix(f, "log_path=") + "." + strconv.Itoa(os.Getpid())
		}
	}
	return ""
}

// NewRaceText returns the race-report text written since the last call (at most
// 64 KiB of it). The log is truncated afterwards: the race runtime keeps
// writing at its own offset, so the file becomes sparse and a tree that races
// in every run cannot fill the disk.
func NewRaceText() string {
	p := raceLogPath()
	if p == "" {
		return ""
	}
	f, err := os.Open(p)
	if err != nil {
		return ""
	}
	defer f.Close()
	st, err := f.Stat()
	if err != nil || st.Size() <= raceLogOff {
		return ""
	}
	n := st.Size() - raceLogOff
	if n > 64<<10 {
		n = 64 << 10
	}
	buf := make([]byte, n)
	f.ReadAt(buf, raceLogOff)
	raceLogOff = st.Size()
	os.Truncate(p, 0)
	return string(buf)
}

var frameRe = regexp.MustCompile(`(?m)^\s+(\S+)\(\)\n\s+(\S+?):(\d+)`)
var instrCache = map[string][]int32{}

// origPos maps a line of an instrumented file back to the original file:line
// through the nearest preceding simrt.Yield(id) call.
func origPos(file string, line int) string {
	i := strings.Index(file, "/prism/")
	if i < 0 {
		return filepath.Base(file) + ":" + strconv.Itoa(line)
	}
	ids, ok := instrCache[file]
	if !ok {
		b, err := os.ReadFile(file)
		if err == nil {
			re := regexp.MustCompile(`simrt\.Yield\((\d+)\)`)
			for _, l := range strings.Split(string(b), "\n") {
				id := int32(-1)
				if m := re.FindStringSubmatch(l); m != nil {
					v, _ := strconv.Atoi(m[1])
					id = int32(v)
				}
				ids = append(ids, id)
			}
		}
		instrCache[file] = ids
	}
	for l := line - 1; l >= 0 && l < len(ids) && l > line-6; l-- {
		if ids[l] >= 0 {
			return sitePos(ids[l])
		}
	}
	return file[i+7:] + ":~" + strconv.Itoa(line)
}

// RaceSignature condenses a race report. It returns a coarse, stable signature
// (the sorted set of functions of the two conflicting accesses, closures folded
// into their parent: which line pair the race runtime reports first depends on
// its randomised shadow-cell eviction) and a detailed one with original
// file:line positions.
func RaceSignature(text string) (coarse, detail string) {
	blocks := strings.Split(text, "==================")
	closure := regexp.MustCompile(`(\.func\d+)+(\.\d+)*$`)
	for _, b := range blocks {
		if !strings.Contains(b, "DATA RACE") {
			continue
		}
		parts := regexp.MustCompile(`(?m)^(Read|Write|Previous read|Previous write|Atomic|Previous atomic)[^\n]*\n`).Split(b, -1)
		var tops, fns []string
		for _, p := range parts[1:] {
			// the innermost frame inside prism names the access (a standard-library
			// setter called from a worker closure is attributed to the closure's
			// function); without any prism frame the innermost non-runtime frame
			frames := frameRe.FindAllStringSubmatch(p, -1)
			pick := -1
			for i, m := range frames {
				if strings.Contains(m[1], "mandykoh/prism") {
					pick = i
					break
				}
			}
			if pick < 0 {
				for i, m := range frames {
					if !strings.HasPrefix(m[1], "runtime.") && !strings.Contains(m[2], "/simrt/") {
						pick = i
						break
					}
				}
			}
			if pick >= 0 {
				m := frames[pick]
				ln, _ := strconv.Atoi(m[3])
				short := m[1]
				if k := strings.LastIndex(short, "/"); k >= 0 {
					short = short[k+1:]
				}
				inner := frames[0][1]
				if k := strings.LastIndex(inner, "/"); k >= 0 {
					inner = inner[k+1:]
				}
				top := short + "@" + origPos(m[2], ln)
				if pick > 0 {
					top += " (in " + inner + ")"
				}
				tops = append(tops, top)
				fns = append(fns, closure.ReplaceAllString(short, ""))
			}
			if len(tops) == 2 {
				break
			}
		}
		sort.Strings(tops)
		sort.Strings(fns)
		if len(fns) == 2 && fns[0] == fns[1] {
			fns = fns[:1]
		}
		return strings.Join(fns, " <-> "), strings.Join(tops, " <-> ")
	}
	return "unparsed", "unparsed"
}

// Extra handles engine-B specific subcommands (the C11 trial child).
func Extra(cmd string, args []string) bool {
	if cmd == "trial" {
		return runTrialChild(args)
	}
	return false
}
