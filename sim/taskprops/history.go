package taskprops

import (
	"fmt"
	"image"
	"image/color"

	"verif.local/sim/tape"
	"verif.local/simrt"
)

// earlier is another call of the same entry point that happens first, in the
// same run (same process), in a quarter of the runs: on an image of the same
// kind whose bounds are either the main image's moved by a drawn offset (same
// size, other origin phase) or drawn independently up to 16x16 (wider rows than
// any main call has). Its result is not judged here - it is judged when it is
// the main call of a run; what is judged is that the main call does not depend
// on it (package-level scratch buffers, free lists, memoised tables and caches
// keyed too coarsely only show in a history of at least two calls).
type earlier struct {
	On   bool
	Same bool // the earlier call is on the very image object of the main call, which is modified in place afterwards
	Img  *Img
	Par  int
	Desc string
	seed uint64
}

// drawEarlier: mainImg is the image object of the main call. In a third of the
// history runs the earlier call is made on that very object, whose pixels (and
// palette) are then changed in place before the main call: anything remembered
// by the identity of an image, a pixel slice or a palette is stale by then.
func drawEarlier(t *tape.Tape, kind int, main image.Rectangle, mainImg *Img) earlier {
	if t.Intn(4) != 0 {
		return earlier{}
	}
	if mainImg != nil && t.Intn(3) == 0 {
		e := earlier{On: true, Same: true, Img: mainImg, seed: t.Draw(1 << 40)}
		e.Par = parallelismOf(t, mainImg.Rect.Dy())
		e.Desc = fmt.Sprintf(" [after an earlier call on the same image object (parallelism %d), whose pixels%s were changed in place in between]", e.Par, map[bool]string{true: " and palette", false: ""}[kind == kPaletted])
		return e
	}
	var r image.Rectangle
	if t.Bool() {
		r = main.Add(image.Pt(t.Range(-3, 3), t.Range(-3, 3)))
	} else {
		r = drawRect(t, 16)
	}
	e := earlier{On: true, Img: makeImg(t, kind, r, t.Bool())}
	e.Par = parallelismOf(t, e.Img.Rect.Dy())
	e.Desc = fmt.Sprintf(" [after an earlier call on %s%v, parallelism %d]", kindNames[kind], e.Img.Rect, e.Par)
	return e
}

// mutate changes the image of a Same history in place (after the earlier call,
// before the reference of the main call is computed).
func (e earlier) mutate() {
	if !e.Same {
		return
	}
	r := tape.NewRand(e.seed)
	for _, pl := range planes(e.Img.Parent) {
		for i := range pl {
			if r.Intn(3) == 0 {
				pl[i] ^= byte(1 + r.Intn(255))
			}
		}
	}
	if p, ok := e.Img.Parent.(*image.Paletted); ok {
		for i := range p.Palette {
			if r.Intn(2) == 0 {
				p.Palette[i] = color.NRGBA{uint8(r.Intn(256)), uint8(r.Intn(256)), uint8(r.Intn(256)), uint8(r.Intn(256))}
			}
		}
		for i := range p.Pix {
			p.Pix[i] = uint8(int(p.Pix[i]) % len(p.Palette))
		}
	}
}

// run executes the earlier call under the serial simulator; panics are left to
// the run in which that call is the main one.
func (e earlier) run(call func()) {
	if !e.On {
		return
	}
	simrt.Run(&simrt.Schedule{Kind: simrt.SerialPerm}, func() {
		defer func() { recover() }()
		call()
	})
}
