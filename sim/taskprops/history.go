package taskprops

import (
	"fmt"
	"image"

	"verif.local/sim/tape"
	"verif.local/simrt"
)

// earlier is another call of the same entry point that happens first, in the
// same run (same process), in a quarter of the runs: on an image of the same
// kind whose bounds are either the main image's moved by a drawn offset (same
// size, other origin phase) or drawn independently up to 16x16 (wider rows than
// any main call has). Its result is not judged here - it is judged when it is
// the main call of a run; what is judged is that the main call does not depend
// on it (package-level scratch buffers, free lists, memoised tables and caches
// keyed too coarsely only show in a history of at least two calls).
type earlier struct {
	On   bool
	Img  *Img
	Par  int
	Desc string
}

func drawEarlier(t *tape.Tape, kind int, main image.Rectangle) earlier {
	if t.Intn(4) != 0 {
		return earlier{}
	}
	var r image.Rectangle
	if t.Bool() {
		r = main.Add(image.Pt(t.Range(-3, 3), t.Range(-3, 3)))
	} else {
		r = drawRect(t, 16)
	}
	e := earlier{On: true, Img: makeImg(t, kind, r, t.Bool())}
	e.Par = parallelismOf(t, e.Img.Rect.Dy())
	e.Desc = fmt.Sprintf(" [after an earlier call on %s%v, parallelism %d]", kindNames[kind], e.Img.Rect, e.Par)
	return e
}

// run executes the earlier call under the serial simulator; panics are left to
// the run in which that call is the main one.
func (e earlier) run(call func()) {
	if !e.On {
		return
	}
	simrt.Run(&simrt.Schedule{Kind: simrt.SerialPerm}, func() {
		defer func() { recover() }()
		call()
	})
}
