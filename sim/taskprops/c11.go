package taskprops

import (
	"encoding/json"
	"flag"
	"fmt"
	"image"
	"image/color"
	"math"
	"os"
	"os/exec"
	"strings"
	"sync"
	"time"

	"github.com/mandykoh/prism"
	"github.com/mandykoh/prism/adobergb"
	"github.com/mandykoh/prism/ciexyy"
	"github.com/mandykoh/prism/ciexyz"
	"github.com/mandykoh/prism/displayp3"
	"github.com/mandykoh/prism/prophotorgb"
	"github.com/mandykoh/prism/srgb"

	"verif.local/sim/core"
	"verif.local/sim/props"
	"verif.local/sim/simio"
	"verif.local/sim/tape"
	"verif.local/simrt"
)

// C11 — all conversions are safe for concurrent use, including the very first
// use.
type c11 struct{}

func init() { register(c11{}) }

func (c11) ID() string    { return "C11" }
func (c11) Level() string { return "exploration" }
func (c11) Rule() string {
	return "each trial is a fresh OS process (package state cannot be reset): N in {2,3,4,8,16,64} caller tasks each execute 1-6 drawn operations (From16Bit/To16Bit/From8Bit/To8Bit of the three curve packages; LineariseColor/EncodeColor of the four spaces; the colour constructors and converters of the four spaces chained through XYZ and Lab (ColorFromNRGBA / FromEncodedColor / FromLinearColor, ToXYZ, ToLAB, ColorFromLAB, ColorFromXYZ, ToNRGBA / ToRGBA / ToRGBA64); LineariseImage/EncodeImage (2-5 rows, or 65-144 rows, half of those in place) and ConvertImageTo{RGBA64,NRGBA,RGBA} of YCbCr / NRGBA / RGBA64 images on task-private images with parallelism 1-4, i.e. nested worker tasks; Bradford adaptation; the four loaders on task-private simulated sources) under a drawn schedule (SERIAL-PERM, RANDOM-WALK, PCT d<=3, SITE-BIAS with preemption points inside */lut.go and the worker closures); in first-use trials the first operation of at least two tasks needs the same lazily built table. A second simulated phase in the same process exercises subsequent calls. Oracles: (1) the race detector, which cannot see the simulator's hand-offs, reports nothing; (2) every operation's result during the run == its result re-evaluated sequentially after the final join == its solo value computed in another process; (3) no deadlock, no panic. Non-trivial: >= 2 caller tasks executed instrumented steps and (first-use trials) touched the same table; distinct = hash of the (task, site) step sequences of both phases."
}
func (c11) Exhaustive(string) string { return "" }
func (c11) Runs(tier string) int64 {
	if tier == "thorough" {
		return 12000
	}
	return 640
}
func (c11) Prefix(string, int64) []uint64 { return nil }

// ---------------------------------------------------------------- operations

type opSpec struct {
	Kind    int
	Space   int // 0 srgb, 1 adobergb, 2 prophotorgb, 3 displayp3
	A, B, C uint32
}

const (
	opFrom16 = iota
	opTo16
	opFrom8
	opTo8
	opLineariseColor
	opEncodeColor
	opLineariseImage
	opEncodeImage
	opConvertImage
	opAdapt
	opLoad
	opSharedSrc
	opColorPipeline
	nOps
)

// sharedSources are read-only inputs that several caller tasks transform at the
// same time into private destinations (legal use: the transforms must not write
// to, or keep state about, their source). Built once at package initialisation.
var sharedSources = func() [2]*image.RGBA64 {
	var out [2]*image.RGBA64
	for i := range out {
		img := image.NewRGBA64(image.Rect(-2, 1, 3, 5))
		tape.NewRand(uint64(77 + i)).Fill(img.Pix)
		out[i] = img
	}
	return out
}()

var opNames = [...]string{"From16Bit", "To16Bit", "From8Bit", "To8Bit", "LineariseColor", "EncodeColor", "LineariseImage", "EncodeImage", "ConvertImageToRGBA64", "Bradford.Apply", "meta.Load", "LineariseImage(shared source)", "Color pipeline"}
var spaceNames = [...]string{"srgb", "adobergb", "prophotorgb", "displayp3"}

func (o opSpec) String() string {
	switch o.Kind {
	case opAdapt:
		n := [...]string{"D65", "D50"}
		return fmt.Sprintf("ciexyz.AdaptBetween%sWhitePoints(%s,%s).Apply", [...]string{"XYY", "XYZ"}[o.C>>2%2], n[o.C%2], n[1-o.C>>1%2])
	case opLoad:
		return fmt.Sprintf("loader %d on corpus file %d", o.A%4, o.B)
	case opConvertImage:
		return fmt.Sprintf("prism.ConvertImageTo%s(%s, par %d)", [...]string{"RGBA64", "NRGBA", "RGBA"}[o.A>>20%3], [...]string{"YCbCr", "NRGBA", "RGBA64"}[o.A>>16%3], 1+o.B%3)
	}
	return fmt.Sprintf("%s.%s(%#x)", spaceNames[o.Space], opNames[o.Kind], o.A)
}

// table index a (space, kind) pair needs on first use: 0..5 = {srgb,adobe,prophoto} x {from16,to16}; -1 none
func tableOf(o opSpec) int {
	sp := o.Space
	if sp == 3 {
		sp = 0 // Display P3 borrows sRGB's tables
	}
	switch o.Kind {
	case opFrom16, opLineariseColor, opLineariseImage, opSharedSrc:
		return sp * 2
	case opTo16, opEncodeColor, opEncodeImage:
		return sp*2 + 1
	}
	return -1
}

func drawOp(t *tape.Tape, forceTable int) opSpec {
	var o opSpec
	if forceTable >= 0 {
		sp := forceTable / 2
		if sp == 0 && t.Chance(1, 3) {
			sp = 3
		}
		o.Space = sp
		dir := forceTable % 2
		var kinds []int
		if dir == 0 {
			kinds = []int{opFrom16, opFrom16, opLineariseColor, opLineariseImage}
		} else {
			kinds = []int{opTo16, opTo16, opEncodeColor, opEncodeImage}
		}
		o.Kind = kinds[t.Intn(len(kinds))]
		if sp == 3 && (o.Kind == opFrom16 || o.Kind == opTo16) {
			o.Kind = kinds[2]
		}
	} else {
		o.Kind = t.Pick(3, 3, 1, 1, 3, 3, 2, 2, 1, 1, 2, 2, 2)
		o.Space = t.Intn(4)
		if o.Space == 3 && o.Kind <= opTo8 {
			o.Space = t.Intn(3)
		}
	}
	o.A, o.B, o.C = t.U32(), t.U32(), t.U32()
	return o
}

var spaceFns = [4]struct {
	lin, enc       func(color.Color) color.RGBA64
	linImg, encImg func(dst *image.RGBA64, src *image.RGBA64, par int)
}{
	{srgb.LineariseColor, srgb.EncodeColor, func(d, s *image.RGBA64, p int) { srgb.LineariseImage(d, s, p) }, func(d, s *image.RGBA64, p int) { srgb.EncodeImage(d, s, p) }},
	{adobergb.LineariseColor, adobergb.EncodeColor, func(d, s *image.RGBA64, p int) { adobergb.LineariseImage(d, s, p) }, func(d, s *image.RGBA64, p int) { adobergb.EncodeImage(d, s, p) }},
	{prophotorgb.LineariseColor, prophotorgb.EncodeColor, func(d, s *image.RGBA64, p int) { prophotorgb.LineariseImage(d, s, p) }, func(d, s *image.RGBA64, p int) { prophotorgb.EncodeImage(d, s, p) }},
	{displayp3.LineariseColor, displayp3.EncodeColor, func(d, s *image.RGBA64, p int) { displayp3.LineariseImage(d, s, p) }, func(d, s *image.RGBA64, p int) { displayp3.EncodeImage(d, s, p) }},
}

// pipeFns run the colour constructors and converters of one space on a drawn
// colour: ColorFromNRGBA / ColorFromEncodedColor / ColorFromLinearColor ->
// ToXYZ -> ToLAB -> ColorFromLAB -> ColorFromXYZ -> ToNRGBA / ToRGBA / ToRGBA64
// (encode/decode entry points that reach the 8-bit and the lazily built 16-bit
// tables from another side than From16Bit / To16Bit do).
var pipeFns = [4]func(n color.NRGBA, l color.RGBA64) uint64{
	func(n color.NRGBA, l color.RGBA64) uint64 {
		c, a := srgb.ColorFromNRGBA(n)
		c2, a2 := srgb.ColorFromEncodedColor(l)
		c3, a3 := srgb.ColorFromLinearColor(l)
		x := c.ToXYZ()
		back := srgb.ColorFromXYZ(ciexyz.ColorFromLAB(x.ToLAB(ciexyz.D65), ciexyz.D65))
		r1, r2, r3 := back.ToNRGBA(a), c2.ToRGBA(a2), c3.ToRGBA64(a3)
		return packColors(r1, r2, r3)
	},
	func(n color.NRGBA, l color.RGBA64) uint64 {
		c, a := adobergb.ColorFromNRGBA(n)
		c2, a2 := adobergb.ColorFromEncodedColor(l)
		c3, a3 := adobergb.ColorFromLinearColor(l)
		x := c.ToXYZ()
		back := adobergb.ColorFromXYZ(ciexyz.ColorFromLAB(x.ToLAB(ciexyz.D65), ciexyz.D65))
		r1, r2, r3 := back.ToNRGBA(a), c2.ToRGBA(a2), c3.ToRGBA64(a3)
		return packColors(r1, r2, r3)
	},
	func(n color.NRGBA, l color.RGBA64) uint64 {
		c, a := prophotorgb.ColorFromNRGBA(n)
		c2, a2 := prophotorgb.ColorFromEncodedColor(l)
		c3, a3 := prophotorgb.ColorFromLinearColor(l)
		x := c.ToXYZ()
		back := prophotorgb.ColorFromXYZ(ciexyz.ColorFromLAB(x.ToLAB(ciexyz.D50), ciexyz.D50))
		r1, r2, r3 := back.ToNRGBA(a), c2.ToRGBA(a2), c3.ToRGBA64(a3)
		return packColors(r1, r2, r3)
	},
	func(n color.NRGBA, l color.RGBA64) uint64 {
		c, a := displayp3.ColorFromNRGBA(n)
		c2, a2 := displayp3.ColorFromEncodedColor(l)
		c3, a3 := displayp3.ColorFromLinearColor(l)
		x := c.ToXYZ()
		back := displayp3.ColorFromXYZ(ciexyz.ColorFromLAB(x.ToLAB(ciexyz.D65), ciexyz.D65))
		r1, r2, r3 := back.ToNRGBA(a), c2.ToRGBA(a2), c3.ToRGBA64(a3)
		return packColors(r1, r2, r3)
	},
}

func packColors(a color.NRGBA, b color.RGBA, c color.RGBA64) uint64 {
	h := uint64(a.R)<<24 | uint64(a.G)<<16 | uint64(a.B)<<8 | uint64(a.A)
	h = tape.Mix(h, uint64(b.R)<<24|uint64(b.G)<<16|uint64(b.B)<<8|uint64(b.A))
	return tape.Mix(h, uint64(c.R)<<48|uint64(c.G)<<32|uint64(c.B)<<16|uint64(c.A))
}

func hashBytes(h uint64, b []byte) uint64 {
	for _, c := range b {
		h = tape.SplitMix64(h ^ uint64(c))
	}
	return h
}

// execOp executes one operation on task-private data and digests its result.
func execOp(o opSpec) uint64 {
	f01 := func(x uint32) float32 { return float32(x%100001)/100000*1.2 - 0.1 }
	switch o.Kind {
	case opFrom16:
		var v float32
		switch o.Space {
		case 0:
			v = srgb.From16Bit(uint16(o.A))
		case 1:
			v = adobergb.From16Bit(uint16(o.A))
		default:
			v = prophotorgb.From16Bit(uint16(o.A))
		}
		return uint64(math.Float32bits(v))
	case opTo16:
		switch o.Space {
		case 0:
			return uint64(srgb.To16Bit(f01(o.A)))
		case 1:
			return uint64(adobergb.To16Bit(f01(o.A)))
		default:
			return uint64(prophotorgb.To16Bit(f01(o.A)))
		}
	case opFrom8:
		var v float32
		switch o.Space {
		case 0:
			v = srgb.From8Bit(uint8(o.A))
		case 1:
			v = adobergb.From8Bit(uint8(o.A))
		default:
			v = prophotorgb.From8Bit(uint8(o.A))
		}
		return uint64(math.Float32bits(v))
	case opTo8:
		switch o.Space {
		case 0:
			return uint64(srgb.To8Bit(f01(o.A)))
		case 1:
			return uint64(adobergb.To8Bit(f01(o.A)))
		default:
			return uint64(prophotorgb.To8Bit(f01(o.A)))
		}
	case opLineariseColor, opEncodeColor:
		a := uint16(o.C) | 0x8000
		m := uint32(a) + 1 // channel <= alpha; computed in 32 bits (a may be 0xFFFF)
		c := color.RGBA64{R: uint16(o.A & 0xFFFF % m), G: uint16(o.A >> 16 % m), B: uint16(o.B & 0xFFFF % m), A: a}
		var r color.RGBA64
		if o.Kind == opLineariseColor {
			r = spaceFns[o.Space].lin(c)
		} else {
			r = spaceFns[o.Space].enc(c)
		}
		return uint64(r.R)<<48 | uint64(r.G)<<32 | uint64(r.B)<<16 | uint64(r.A)
	case opLineariseImage, opEncodeImage:
		w, h := 2+int(o.A%3), 2+int(o.A>>8%4)
		if o.A>>16%8 == 0 {
			h = 65 + int(o.A>>20%80) // more rows than any block size a row distributor is likely to use
		}
		src := image.NewRGBA64(image.Rect(0, 0, w, h))
		tape.NewRand(uint64(o.B)).Fill(src.Pix)
		for i := 6; i < len(src.Pix); i += 8 {
			src.Pix[i] = 0xFF // opaque-ish alpha keeps channels <= alpha mostly irrelevant
		}
		dst := image.NewRGBA64(src.Rect)
		if o.A>>28&1 == 1 {
			dst = src // in place, as the documentation allows: a row transformed twice shows in the values
		}
		par := 1 + int(o.C%4)
		if o.Kind == opLineariseImage {
			spaceFns[o.Space].linImg(dst, src, par)
		} else {
			spaceFns[o.Space].encImg(dst, src, par)
		}
		return hashBytes(uint64(w*16+h), dst.Pix)
	case opColorPipeline:
		n := color.NRGBA{R: uint8(o.A), G: uint8(o.A >> 8), B: uint8(o.A >> 16), A: uint8(o.A>>24) | 1}
		al := uint16(o.C) | 0x8000
		m := uint32(al) + 1
		l := color.RGBA64{R: uint16(o.B & 0xFFFF % m), G: uint16(o.B >> 16 % m), B: uint16(o.C >> 16 % m), A: al}
		return pipeFns[o.Space](n, l)
	case opSharedSrc:
		src := sharedSources[o.A%2]
		dst := image.NewRGBA64(src.Rect)
		spaceFns[o.Space].linImg(dst, src, 1+int(o.C%4))
		return hashBytes(hashBytes(11, dst.Pix), src.Pix)
	case opConvertImage:
		r := tape.NewRand(uint64(o.C))
		rect := image.Rect(0, 0, 3+int(o.A%3), 3+int(o.A>>8%3))
		par := 1 + int(o.B%3)
		var in image.Image
		switch o.A >> 16 % 3 {
		case 0:
			src := image.NewYCbCr(rect, image.YCbCrSubsampleRatio420)
			r.Fill(src.Y)
			r.Fill(src.Cb)
			r.Fill(src.Cr)
			in = src
		case 1:
			src := image.NewNRGBA(rect)
			r.Fill(src.Pix)
			in = src
		default:
			src := image.NewRGBA64(rect)
			r.Fill(src.Pix)
			for i := 0; i+7 < len(src.Pix); i += 8 { // valid premultiplied colours
				src.Pix[i+6], src.Pix[i+7] = 0xFF, 0xFF
			}
			in = src
		}
		switch o.A >> 20 % 3 {
		case 0:
			return hashBytes(7, prism.ConvertImageToRGBA64(in, par).Pix)
		case 1:
			return hashBytes(8, prism.ConvertImageToNRGBA(in, par).Pix)
		default:
			return hashBytes(9, prism.ConvertImageToRGBA(in, par).Pix)
		}
	case opAdapt:
		// the white-point pair varies between calls (and so between concurrent
		// callers): a cache of "the last adaptation" must not leak across pairs
		wps := [...]ciexyy.Color{ciexyy.D65, ciexyy.D50}
		sw, dw := wps[o.C%2], wps[1-o.C>>1%2]
		var ad ciexyz.ChromaticAdaptation
		if o.C>>2%2 == 0 {
			ad = ciexyz.AdaptBetweenXYYWhitePoints(sw, dw)
		} else {
			ad = ciexyz.AdaptBetweenXYZWhitePoints(ciexyz.ColorFromXYY(sw), ciexyz.ColorFromXYY(dw))
		}
		c := ad.Apply(ciexyz.Color{X: f01(o.A), Y: f01(o.B), Z: f01(o.C)})
		return uint64(math.Float32bits(c.X)) ^ uint64(math.Float32bits(c.Y))<<20 ^ uint64(math.Float32bits(c.Z))<<40
	case opLoad:
		var small []props.CorpusFile
		if o.C>>31 != 0 {
			// C's top bit: only files that carry an ICC profile (loaders handing
			// out profile bytes are where shared buffers would hide)
			small = props.ICCCorpus()
		} else {
			for _, c := range props.Corpus() {
				if len(c.Data) < 20000 {
					small = append(small, c)
				}
			}
		}
		f := small[int(o.B)%len(small)]
		l := props.Loaders[o.A%4]
		src := simio.NewSource(simio.Bytes(f.Data), simio.Config{TruncAt: -1, ErrAt: -1, Policy: simio.Fixed, K: 1 + int(o.C&0x7FFFFFFF%5000)})
		res := props.SafeLoad(l, src)
		v := props.View(res)
		h := tape.HashString(fmt.Sprintf("%v|%s|%d|%d|%d|%d|%v|%s", v.OK, v.Format, v.W, v.H, v.Bits, v.ICCLen, v.ICCNil, v.ICCErr))
		if res.MD != nil {
			if d, _ := res.MD.ICCProfileData(); d != nil {
				h = hashBytes(h, d) // the returned bytes themselves are part of the value
			}
		}
		if res.Panic != nil {
			h ^= 0xDEAD
		}
		return h
	}
	return 0
}

// ---------------------------------------------------------------- trial

type phaseSpec struct {
	Tasks  [][]opSpec
	Sched  *simrt.Schedule
	ScDesc string
	Table  int // first-use table shared by >= 2 tasks (-1 none)
}

type trialSpec struct {
	Phases [2]phaseSpec
}

func drawPhase(t *tape.Tape, firstUse bool) phaseSpec {
	var p phaseSpec
	n := [...]int{2, 3, 4, 8, 16, 64}[t.Pick(8, 6, 4, 3, 2, 1)]
	metaOnly := !firstUse && t.Chance(1, 4) // every task loads ICC-carrying files: hunts state shared between loads
	p.Table = -1
	sharers := 0
	if firstUse {
		p.Table = t.Intn(6)
		sharers = 2 + t.Intn(n-1)
	}
	for i := 0; i < n; i++ {
		k := 1 + t.Pick(3, 2, 2, 1, 1, 1)
		var ops []opSpec
		for j := 0; j < k; j++ {
			force := -1
			if j == 0 && i < sharers {
				force = p.Table
			}
			o := drawOp(t, force)
			if metaOnly {
				o.Kind = opLoad
				o.C |= 1 << 31
				if t.Bool() {
					o.A = o.A&^3 | 3 // autometa
				}
			} else {
				o.C &^= 1 << 31
			}
			ops = append(ops, o)
		}
		p.Tasks = append(p.Tasks, ops)
	}
	p.Sched, p.ScDesc = DrawSchedule(t, [4]int{3, 2, 3, 4})
	return p
}

func drawTrial(t *tape.Tape) trialSpec {
	var tr trialSpec
	tr.Phases[0] = drawPhase(t, t.Chance(5, 6))
	tr.Phases[1] = drawPhase(t, false)
	return tr
}

type phaseResult struct {
	During   [][]uint64 `json:"during"`
	Post     [][]uint64 `json:"post"`
	Panics   []string   `json:"panics,omitempty"`
	Races    int        `json:"races"`
	RaceText string     `json:"race_text,omitempty"`
	Deadlock bool       `json:"deadlock"`
	Steps    int64      `json:"steps"`
	NSwitch  int        `json:"nswitch"`
	SeqHash  uint64     `json:"seqhash"`
	Switches []string   `json:"switches"`
	Probes   [16]int64  `json:"probes"`
	Stepped  int        `json:"tasks_stepped"`
	Tasks    int        `json:"tasks"`
}

func runPhase(p phaseSpec) phaseResult {
	var pr phaseResult
	n := len(p.Tasks)
	pr.During = make([][]uint64, n)
	pr.Post = make([][]uint64, n)
	panics := make([]string, n)
	for i := range p.Tasks {
		pr.During[i] = make([]uint64, len(p.Tasks[i]))
		pr.Post[i] = make([]uint64, len(p.Tasks[i]))
	}
	before := simrt.RaceErrors()
	simrt.ResetSteps(60000000) // six table builds take about 3 million steps; beyond the budget a task does not terminate
	defer simrt.ResetSteps(0)
	var wg sync.WaitGroup // the caller's own, race-visible join
	res := simrt.Run(p.Sched, func() {
		for i := 0; i < n; i++ {
			i := i
			wg.Add(1)
			simrt.Go(func() {
				defer wg.Done()
				defer func() {
					if r := recover(); r != nil {
						panics[i] = fmt.Sprint(r)
					}
				}()
				for j, o := range p.Tasks[i] {
					pr.During[i][j] = execOp(o)
				}
			})
		}
	})
	if !res.Deadlock {
		wg.Wait()
	}
	pr.Races = simrt.RaceErrors() - before
	if pr.Races > 0 {
		pr.RaceText = trimText(NewRaceText(), 12000)
	}
	pr.Deadlock = res.Deadlock
	pr.Steps, pr.NSwitch, pr.SeqHash, pr.Probes = res.Steps, res.NSwitch, res.SeqHash, res.Probes
	pr.Switches = SwitchList(res)
	pr.Stepped, pr.Tasks = res.TasksStepped, res.Tasks
	for _, s := range panics {
		if s != "" {
			pr.Panics = append(pr.Panics, s)
		}
	}
	if !res.Deadlock {
		for i := range p.Tasks {
			for j, o := range p.Tasks[i] {
				pr.Post[i][j] = evalAlone(o)
			}
		}
		if n := simrt.RaceErrors() - before - pr.Races; n > 0 {
			pr.Races += n
			pr.RaceText += trimText(NewRaceText(), 6000)
		}
	}
	return pr
}

// evalAlone executes one operation as the only caller, still under the
// simulator (one task, serial schedule), so that library-spawned workers are
// scheduled deterministically even when the value is the reference.
func evalAlone(o opSpec) (v uint64) {
	sc := &simrt.Schedule{Kind: simrt.SerialPerm, MaxSteps: 2000000}
	res := simrt.Run(sc, func() {
		defer func() {
			if r := recover(); r != nil {
				v = 0xBADBADBAD
			}
		}()
		v = execOp(o)
	})
	if res.Deadlock {
		return 0xDEADDEAD
	}
	return v
}

// runTrialChild is the body of `tasksim trial`: a fresh process that replays the
// tape, runs both phases under the simulator and prints what happened.
func runTrialChild(args []string) bool {
	fs := flag.NewFlagSet("trial", flag.ExitOnError)
	tf := fs.String("tape", "", "")
	fs.Parse(args)
	// an orphan (its worker was killed by the orchestrator's watchdog while this
	// process was stuck) must not outlive the check by more than a few minutes
	time.AfterFunc(6*time.Minute, func() { os.Exit(3) })
	b, err := os.ReadFile(*tf)
	if err != nil {
		fmt.Println("HARNESS-ERROR:", err)
		os.Exit(2)
	}
	var vals []uint64
	if err := json.Unmarshal(b, &vals); err != nil {
		fmt.Println("HARNESS-ERROR:", err)
		os.Exit(2)
	}
	props.Corpus() // load shared read-only inputs before any task runs
	props.ICCCorpus()
	tr := drawTrial(tape.Replay(vals))
	var out [2]phaseResult
	out[0] = runPhase(tr.Phases[0])
	if !out[0].Deadlock {
		out[1] = runPhase(tr.Phases[1])
	}
	if p := raceLogPath(); p != "" {
		os.Remove(p)
	}
	json.NewEncoder(os.Stdout).Encode(out)
	return true
}

func (c11) Run(t *tape.Tape, st *Stats) *Violation {
	st.Evals++
	props.Corpus()
	props.ICCCorpus()
	tr := drawTrial(t)
	// solo values: this worker process evaluates every operation on its own,
	// outside any simulated run, one after the other
	var solo [2][][]uint64
	for ph := range tr.Phases {
		for _, ops := range tr.Phases[ph].Tasks {
			var row []uint64
			for _, o := range ops {
				row = append(row, evalAlone(o))
			}
			solo[ph] = append(solo[ph], row)
		}
	}
	dir := os.Getenv("VERIF_RACELOG_DIR")
	if dir == "" {
		dir = os.TempDir()
	}
	f, err := os.CreateTemp(dir, "trial-*.json")
	if err != nil {
		panic(&core.HarnessError{Msg: "cannot create trial tape file: " + err.Error()})
	}
	tb, _ := json.Marshal(t.Vals)
	f.Write(tb)
	f.Close()
	defer os.Remove(f.Name())
	exe, _ := os.Executable()
	cmd := exec.Command(exe, "trial", "-tape", f.Name())
	// a trial is a fresh process: the race runtime's once-per-stack-pair
	// de-duplication is wanted there (a racy 65536-iteration loop would otherwise
	// print 65536 reports), unlike in the multi-run workers of C10 / C15
	gorace := strings.NewReplacer("suppress_equal_stacks=0", "suppress_equal_stacks=1", "suppress_equal_addresses=0", "suppress_equal_addresses=1").Replace(os.Getenv("GORACE"))
	cmd.Env = append(os.Environ(), "GORACE="+gorace, "GOMAXPROCS="+[...]string{"1", "4", "16"}[int(t.Seed%3)])
	outb, err := cmd.Output()
	var out [2]phaseResult
	if jerr := json.Unmarshal(outb, &out); jerr != nil {
		stderr := ""
		if ee, ok := err.(*exec.ExitError); ok {
			stderr = string(ee.Stderr)
		}
		return &Violation{Class: "panic", Sig: "trial-process-died", Detail: fmt.Sprintf("the trial process produced no result (err=%v): %s %s", err, trimText(string(outb), 800), trimText(stderr, 3000))}
	}
	firstUse := tr.Phases[0].Table >= 0
	tables := [...]string{"srgb.encoded16ToLinear", "srgb.linearToEncoded16", "adobergb.encoded16ToLinear", "adobergb.linearToEncoded16", "prophotorgb.encoded16ToLinear", "prophotorgb.linearToEncoded16"}
	cls := "subsequent-only"
	if firstUse {
		cls = "first-use:" + tables[tr.Phases[0].Table]
	}
	st.Class(cls)
	for ph := range out {
		st.Steps += out[ph].Steps
		st.Digest = tape.Mix(st.Digest, out[ph].SeqHash, uint64(out[ph].NSwitch))
		st.Fault("preemption", tr.Phases[ph].Sched.Kind != simrt.SerialPerm, out[ph].NSwitch > len(tr.Phases[ph].Tasks)+2)
		st.Fault("preemption_inside_lut_or_worker", tr.Phases[ph].Sched.Kind == simrt.SiteBias, out[ph].Probes[simrt.ProbeHotPreempt] > 0)
		st.Probe("task_blocked_on_once", out[ph].Probes[simrt.ProbeBlockedOnOnce] > 0)
		st.Probe("preempted_inside_once", out[ph].Probes[simrt.ProbePreemptedInsideOnce] > 0)
		st.Probe("nested_worker_tasks", out[ph].Probes[simrt.ProbeNested] > 0)
	}
	st.LogHash(tape.Mix(out[0].SeqHash, out[1].SeqHash))
	st.Probe("first_use_trial", firstUse)
	if out[0].Stepped >= 3 { // root + >= 2 callers
		st.Mark(tape.Mix(out[0].SeqHash, out[1].SeqHash))
	}
	render := func() interface{} {
		var phases []interface{}
		for ph := range tr.Phases {
			var tasks []string
			for i, ops := range tr.Phases[ph].Tasks {
				s := fmt.Sprintf("task %d:", i+1)
				for _, o := range ops {
					s += " " + o.String() + ";"
				}
				tasks = append(tasks, s)
			}
			phases = append(phases, map[string]interface{}{"tasks": tasks, "schedule": tr.Phases[ph].ScDesc, "steps": out[ph].Steps,
				"context_switches": out[ph].Switches, "races": out[ph].Races, "race_report": trimText(out[ph].RaceText, 5000), "panics": out[ph].Panics})
		}
		return map[string]interface{}{"kind": cls, "phases": phases}
	}
	if st.WantSample() {
		st.Sample(render())
	}
	for ph := range out {
		o := out[ph]
		name := [...]string{"first phase", "second phase (subsequent calls)"}[ph]
		if o.Races > 0 {
			coarse, detail := RaceSignature(o.RaceText)
			return &Violation{Class: "data-race", Sig: "data-race:" + coarse, Detail: fmt.Sprintf("%s: %d race report(s), first: %s [%s]", name, o.Races, detail, tr.Phases[ph].ScDesc), Render: render()}
		}
		for _, ps := range o.Panics {
			if ps == (simrt.StepBudgetExceeded{}).Error() {
				return &Violation{Class: "livelock", Sig: "livelock", Detail: name + ": step budget of 60000000 instrumented statements exceeded: a task does not terminate [" + tr.Phases[ph].ScDesc + "]", Render: render()}
			}
		}
		if len(o.Panics) > 0 {
			return &Violation{Class: "panic", Sig: "panic", Detail: fmt.Sprintf("%s: %v", name, o.Panics), Render: render()}
		}
		if o.Deadlock {
			return &Violation{Class: "deadlock", Sig: "deadlock", Detail: name + ": all tasks blocked [" + tr.Phases[ph].ScDesc + "]", Render: render()}
		}
		for i := range o.During {
			for j := range o.During[i] {
				d, p, s := o.During[i][j], o.Post[i][j], solo[ph][i][j]
				if d != p || p != s {
					op := tr.Phases[ph].Tasks[i][j]
					return &Violation{Class: "value-differs", Sig: "value-differs:" + opNames[op.Kind],
						Detail: fmt.Sprintf("%s: task %d op %d %s returned %#x during the run, %#x after the join, %#x alone [%s]", name, i+1, j, op, d, p, s, tr.Phases[ph].ScDesc), Render: render()}
				}
			}
		}
		if ph == 0 && o.Deadlock {
			break
		}
	}
	return nil
}
