package taskprops

func runTrialChild(args []string) bool { return false }
