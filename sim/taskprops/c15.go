package taskprops

import (
	"fmt"
	"image"
	"image/draw"
	"reflect"

	"github.com/mandykoh/prism"

	"verif.local/sim/tape"
	"verif.local/simrt"
)

// C15 — image type conversion helpers equal the standard library's conversion.
type c15 struct{}

func init() { register(c15{}) }

func (c15) ID() string    { return "C15" }
func (c15) Level() string { return "exploration" }
func (c15) Rule() string {
	return "each run draws an input image (every standard-library type incl. the six YCbCr subsamplings, Gray, Gray16, CMYK, Paletted, Alpha, Alpha16, NRGBA64, or an opaque wrapper), bounds / origin / sub-image of a sentinel-filled parent, pixel content (random, all 0xFF, extremes, ramp), one of ConvertImageToNRGBA / ToRGBA / ToRGBA64, parallelism in {1,2,3,7,16,rows+5} and a schedule; the helper's worker goroutines run as tasks of the seeded scheduler. Oracle: result bounds == input bounds; every pixel buffer byte equals draw.Draw(new, b, img, b.Min, draw.Src) into a fresh image of the target type; input already of the target type => the same pointer; input's backing store unchanged; race detector silent; no panic. Non-trivial: >= 2 tasks stepped and >= 1 switch, or a non-parallel path with a non-empty image; distinct = hash(step sequence, helper, input kind, bounds, content seed)."
}
func (c15) Exhaustive(string) string { return "" }
func (c15) Runs(tier string) int64 {
	if tier == "thorough" {
		return 4000000
	}
	return 24000
}
func (c15) Prefix(string, int64) []uint64 { return nil }

func (c15) Run(t *tape.Tape, st *Stats) *Violation {
	WarmTables()
	st.Evals++
	helper := t.Intn(3)
	kind := t.Intn(nKinds)
	rect := drawRect(t, 12)
	in := makeImgNeg(t, kind, rect, t.Bool(), true)
	rect = in.Rect
	opaque := t.Chance(1, 8)
	par := parallelismOf(t, rect.Dy())
	sc, scDesc := DrawSchedule(t, [4]int{2, 3, 3, 4})
	pre := drawEarlier(t, kind, rect, in)
	simrt.ResetSteps(2000000)
	pre.run(func() {
		switch helper {
		case 0:
			prism.ConvertImageToNRGBA(pre.Img.View, pre.Par)
		case 1:
			prism.ConvertImageToRGBA(pre.Img.View, pre.Par)
		default:
			prism.ConvertImageToRGBA64(pre.Img.View, pre.Par)
		}
	})
	simrt.ResetSteps(0)
	pre.mutate()
	snap := in.clone()
	var arg image.Image = in.View
	if opaque {
		arg = opaqueImage{in.View}
	}
	b := in.View.Bounds()
	// the oracle is draw.Draw on the same kind of argument: the standard library
	// has its own fast paths keyed on the concrete source type, which differ from
	// its generic path for invalid premultiplied colours
	var ref image.Image = snap.View
	if opaque {
		ref = opaqueImage{snap.View}
	}
	var want image.Image
	var name string
	if rect.Min.X < 0 || rect.Min.Y < 0 {
		// below zero the reference itself may fail for a subsampled source (see
		// makeImgNeg): such a run decides nothing
		refPanicked := false
		func() {
			defer func() { refPanicked = recover() != nil }()
			draw.Draw(image.NewRGBA64(b), b, ref, b.Min, draw.Src)
		}()
		if refPanicked {
			return nil
		}
	}
	switch helper {
	case 0:
		name = "ConvertImageToNRGBA"
		w := image.NewNRGBA(b)
		draw.Draw(w, b, ref, b.Min, draw.Src)
		want = w
	case 1:
		name = "ConvertImageToRGBA"
		w := image.NewRGBA(b)
		draw.Draw(w, b, ref, b.Min, draw.Src)
		want = w
	default:
		name = "ConvertImageToRGBA64"
		w := image.NewRGBA64(b)
		draw.Draw(w, b, ref, b.Min, draw.Src)
		want = w
	}
	sameType := !opaque && ((helper == 0 && kind == kNRGBA) || (helper == 1 && kind == kRGBA) || (helper == 2 && kind == kRGBA64))
	simrt.ResetSteps(2000000) // a run of this size takes a few thousand steps; beyond the budget it is a livelock
	defer simrt.ResetSteps(0)
	simrt.ResetSteps(2000000)
	racesBefore := simrt.RaceErrors()
	var got image.Image
	var atReturn [][]uint8
	var panicked interface{}
	res := simrt.Run(sc, func() {
		defer func() { panicked = recover() }()
		switch helper {
		case 0:
			got = prism.ConvertImageToNRGBA(arg, par)
		case 1:
			got = prism.ConvertImageToRGBA(arg, par)
		default:
			got = prism.ConvertImageToRGBA64(arg, par)
		}
		if got != nil && !reflect.ValueOf(got).IsNil() {
			atReturn = snapshotPlanes(got) // the caller looks at the result as soon as the call has returned
		}
	})
	races := simrt.RaceErrors() - racesBefore
	harnessLimit(panicked)
	st.Class(name + ":" + kindNames[kind])
	st.Steps += res.Steps
	st.Digest = tape.Mix(st.Digest, res.SeqHash, uint64(res.NSwitch))
	st.LogHash(tape.Mix(res.SeqHash, uint64(kind), uint64(helper)))
	st.Fault("preemption", sc.Kind != simrt.SerialPerm, res.NSwitch > par+1)
	st.Fault("preemption_inside_worker_closure", sc.Kind == simrt.SiteBias, res.Probes[simrt.ProbeHotPreempt] > 0)
	st.Probe("same_type_input", sameType)
	st.Probe("earlier_call_in_the_same_run", pre.On)
	st.Probe("sub_image_input", in.Parent.Bounds() != in.Rect)
	st.Probe("parallel_path_taken", res.Tasks > 1)
	st.Probe("empty_input", rect.Empty())
	if (res.TasksStepped >= 2 && res.NSwitch >= 1) || (res.Tasks == 1 && !rect.Empty()) {
		h := tape.Mix(res.SeqHash, uint64(helper), uint64(kind), uint64(par), uint64(rect.Dx()), uint64(rect.Dy()))
		for _, pl := range planes(in.Parent) {
			for i := 0; i < len(pl); i += 1 + len(pl)/16 {
				h = tape.Mix(h, uint64(pl[i]))
			}
		}
		st.Mark(h)
	}
	desc := fmt.Sprintf("%s(%s%v%s, parallelism %d)", name, kindNames[kind], in.Rect, subNote(in, opaque), par) + pre.Desc
	render := func() interface{} {
		return map[string]interface{}{"case": desc, "schedule": scDesc, "steps": res.Steps, "tasks": res.Tasks, "context_switches": SwitchList(res)}
	}
	if st.WantSample() {
		st.Sample(render())
	}
	fail := func(class, detail string) *Violation {
		r := render().(map[string]interface{})
		if races > 0 {
			r["race_report"] = trimText(lastRace, 6000)
		}
		sig := class + ":" + name
		if class == "pixel-differs" {
			sig += ":" + kindNames[kind]
		}
		return &Violation{Class: class, Sig: sig, Detail: detail + " [" + desc + "; " + scDesc + "]", Render: r, OwnHistory: pre.On}
	}
	if races > 0 {
		lastRace = NewRaceText()
		coarse, detail := RaceSignature(lastRace)
		v := fail("data-race", fmt.Sprintf("%d race report(s), first: %s", races, detail))
		v.Sig = "data-race:" + coarse
		return v
	}
	if _, ok := panicked.(simrt.StepBudgetExceeded); ok || simrt.Tripped() {
		return fail("livelock", "step budget of 2000000 instrumented statements exceeded: a worker does not terminate")
	}
	if panicked != nil {
		return fail("panic", fmt.Sprintf("panic: %v", panicked))
	}
	if res.Deadlock {
		return fail("deadlock", "all tasks blocked")
	}
	if got == nil || reflect.ValueOf(got).IsNil() {
		return fail("bounds-differ", "nil result")
	}
	if ok, why := samePlanes(in.Parent, snap.Parent); !ok {
		return fail("input-modified", why+" in the input's backing store")
	}
	if sameType {
		if got != in.View {
			return fail("not-same-instance", fmt.Sprintf("input is already %T but a different instance was returned", in.View))
		}
		return nil
	}
	if got.Bounds() != b {
		return fail("bounds-differ", fmt.Sprintf("result bounds %v, input bounds %v", got.Bounds(), b))
	}
	if reflect.TypeOf(got) != reflect.TypeOf(want) {
		return fail("bounds-differ", fmt.Sprintf("result type %T, expected %T", got, want))
	}
	if atReturn != nil {
		if ok, why := planesEqual(atReturn, want); !ok {
			if okFinal, _ := samePlanes(got, want); okFinal {
				return fail("incomplete-at-return", why+" in the result when the call returned; it became correct only later (work still running after the return)")
			}
		}
	}
	if ok, why := samePlanes(got, want); !ok {
		return fail("pixel-differs", why+" compared with draw.Draw(Src)")
	}
	return nil
}
