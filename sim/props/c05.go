package props

import (
	"bytes"
	"fmt"
	"image"
	"image/jpeg"
	"image/png"
	"strings"

	"golang.org/x/image/webp"

	"verif.local/sim/core"
	"verif.local/sim/refmodel"
	"verif.local/sim/simio"
	"verif.local/sim/tape"
)

// C05 — reported dimensions, bit depth and format equal the header.
type c05 struct{}

func init() { register(c05{}) }

func (c05) ID() string    { return "C05" }
func (c05) Level() string { return "exploration" }
func (c05) Rule() string {
	return "workload: files generated from the PNG / JPEG / WebP specifications (every legal PNG colour-type/bit-depth pair, interlacing, ancillary chunks; SOF0/SOF2, 1/3/4 components, sampling factors, APPn/COM/DQT/DHT/DRI segments; VP8, VP8L, VP8X with all flag combinations), with ground truth; plus dimension sweeps (each 14/16/24-bit field over its whole range in thorough, strided in quick; PNG 31-bit fields by single bits, prefixes, suffixes and drawn values) which are input enumeration run through the simulator. Every file is served by the simulated source under a drawn delivery schedule to the format-specific loader and to autometa. Oracle: format name, width, height, bits == generator truth; std DecodeConfig (image/png, image/jpeg, x/image/webp) must agree with the truth whenever it accepts the file (disagreement = harness error). Non-trivial: both loaders consumed the header; distinct = hash(format, variant, w, h, bits, delivery log)."
}
func (c05) Exhaustive(tier string) string {
	if tier == "thorough" {
		return "dimension sweeps: VP8 2x16383, VP8L 2x16384, JPEG 2x65535 values each with the other dimension at 5 values; VP8X 2x2^24 values with the other dimension at 1 and with stride 97 at 4 more values"
	}
	return ""
}

// sweep descriptors: kind 0 VP8, 1 VP8L, 2 VP8X, 3 JPEG
var c05sweepMax = [4]int64{16383, 16384, 1 << 24, 65535}
var c05others = [4][5]uint32{
	{1, 2, 255, 9999, 16383},
	{1, 2, 256, 10000, 16384},
	{1, 257, 65536, 1 << 23, 1 << 24},
	{1, 256, 257, 32768, 65535},
}

type c05block struct {
	kind, axis, other int
	stride, count     int64
}

var c05blocksCache = map[string][]c05block{}

// c05blocks lists the dimension sweeps of a tier: (format kind, swept axis,
// index of the value the other dimension is held at, stride). Thorough sweeps
// the 14-bit and 16-bit fields completely at all five other values, and the
// 24-bit VP8X fields completely at the first other value and with stride 97 at
// the remaining four; quick uses strides 97 / 997.
func c05blocks(tier string) []c05block {
	if b, ok := c05blocksCache[tier]; ok {
		return b
	}
	var out []c05block
	for k := 0; k < 4; k++ {
		for axis := 0; axis < 2; axis++ {
			for other := 0; other < 5; other++ {
				st := int64(1)
				switch {
				case tier != "thorough" && k == 2:
					st = 997
				case tier != "thorough":
					st = 97
				case k == 2 && other > 0:
					st = 97
				}
				out = append(out, c05block{k, axis, other, st, (c05sweepMax[k] + st - 1) / st})
			}
		}
	}
	c05blocksCache[tier] = out
	return out
}

func c05sweepRuns(tier string) int64 {
	var n int64
	for _, b := range c05blocks(tier) {
		n += b.count
	}
	return n
}

func (c05) Runs(tier string) int64 {
	if tier == "thorough" {
		return c05sweepRuns(tier) + 6000000
	}
	return c05sweepRuns(tier) + 150000
}

func (c05) Prefix(tier string, i int64) []uint64 {
	for _, b := range c05blocks(tier) {
		if i < b.count {
			v := 1 + i*b.stride
			if v > c05sweepMax[b.kind] {
				v = c05sweepMax[b.kind]
			}
			return []uint64{0, uint64(b.kind), uint64(b.axis), uint64(b.other), uint64(v - 1)}
		}
		i -= b.count
	}
	return []uint64{1}
}

// StdConfig runs the standard decoder's DecodeConfig.
func StdConfig(format string, b []byte) (image.Config, error) {
	switch format {
	case "PNG":
		return png.DecodeConfig(bytes.NewReader(b))
	case "JPEG":
		return jpeg.DecodeConfig(bytes.NewReader(b))
	}
	return webp.DecodeConfig(bytes.NewReader(b))
}

// selfCheck compares the generator's truth with the standard decoder; a
// disagreement means the generator (not prism) is wrong.
func selfCheck(st *Stats, f *refmodel.File, data []byte, mustAccept bool) {
	cfg, err := StdConfig(f.Truth.Format, data)
	st.Probe("std_decoder_accepted", err == nil)
	if f.Truth.Format == "JPEG" {
		st.Probe("jpeg_fill_bytes_before_a_marker", strings.Contains(f.Truth.Desc, "fill+"))
	}
	if err != nil {
		if mustAccept {
			panic(&core.HarnessError{Msg: fmt.Sprintf("generator self-check: %s rejects a file the generator must get right: %v (%s)", f.Truth.Format, err, f.Truth.Desc)})
		}
		return
	}
	if uint32(cfg.Width) != f.Truth.W || uint32(cfg.Height) != f.Truth.H {
		panic(&core.HarnessError{Msg: fmt.Sprintf("generator self-check: std decoder says %dx%d, generator truth %dx%d (%s)", cfg.Width, cfg.Height, f.Truth.W, f.Truth.H, f.Truth.Desc)})
	}
}

func (c05) Run(t *tape.Tape, st *Stats) *Violation {
	st.Evals++
	var f *refmodel.File
	variant := ""
	sweep := t.Draw(2) == 0
	if sweep {
		k := t.Intn(4)
		axis := t.Intn(2)
		other := c05others[k][t.Intn(5)]
		v := uint32(t.Draw(uint64(c05sweepMax[k]))) + 1
		w, h := v, other
		if axis == 1 {
			w, h = other, v
		}
		switch k {
		case 0, 1, 2:
			p := refmodel.WebPParams{Kind: refmodel.WebPKind(k), W: w, H: h, ShowFrame: true, BodyLen: 4}
			if k == 2 {
				p.Inner = refmodel.WebPVP8L
			}
			f = refmodel.BuildWebP(p)
		default:
			p := refmodel.DrawJPEG(tape.Replay(nil), 2, nil, false, nil)
			p.W, p.H = uint16(w), uint16(h)
			// rebuild the SOF segment with the swept dimensions
			for i := range p.Segs {
				if p.Segs[i].Marker == 0xC0 || p.Segs[i].Marker == 0xC2 {
					pl := p.Segs[i].Payload
					pl[1], pl[2], pl[3], pl[4] = byte(h>>8), byte(h), byte(w>>8), byte(w)
				}
			}
			f = refmodel.BuildJPEG(p)
		}
		variant = fmt.Sprintf("sweep:%d:%d", k, axis)
	} else {
		switch t.Pick(4, 3, 3, 1) {
		case 0:
			// a damaged embedded profile does not make the image header any less
			// well-formed: dimensions, depth and format must still be reported
			f = refmodel.BuildPNG(refmodel.DrawPNG(t, 0, []int{1, 300, 5000}, true))
		case 1:
			f = refmodel.BuildJPEG(refmodel.DrawJPEG(t, 0, []int{1, 300, 70000}, true, nil))
		case 2:
			f = refmodel.BuildWebP(refmodel.DrawWebP(t, -1, 0, []int{1, 300, 5000}, true))
		default:
			// PNG dimension patterns: single bits, all-ones prefixes / suffixes, neighbours of powers of two
			p := refmodel.DrawPNG(t, 2, nil, false)
			pat := func() uint32 {
				b := uint(t.Intn(31))
				switch t.Intn(4) {
				case 0:
					return 1 << b
				case 1:
					return (1 << (b + 1)) - 1
				case 2:
					return (0x7FFFFFFF >> b) << b & 0x7FFFFFFF
				default:
					v := uint32(1<<b) + uint32(t.Intn(3)) - 1
					if v == 0 || v > 0x7FFFFFFF {
						v = 1
					}
					return v
				}
			}
			p.W, p.H = pat(), pat()
			f = refmodel.BuildPNG(p)
		}
		variant = "drawn"
	}
	data := f.Bytes()
	tr := f.Truth
	if !sweep || (tr.W+tr.H)%16 == 0 {
		selfCheck(st, f, data, false)
	}
	cfg := DrawDelivery(t, tr.Fields, true)
	ioFault := DrawIOFault(t, &cfg, tr.Fields, tr.NeededEnd)
	if sweep && ioFault {
		// the dimension sweeps are enumerations: every value is judged, none is
		// excused by a fault
		ioFault, cfg.ErrAt = false, -1
	}
	mid := DrawMidFile(t)
	st.Class(tr.Format + ":" + variant)
	var firstV *Violation
	var views [2]MDView
	var srcs [2]*simio.Source
	for li, loader := range []Loader{SpecificLoader(tr.Format), LoaderAuto} {
		src := simio.NewSource(simio.Bytes(data), cfg)
		rd, ss := mid.Wrap(src)
		res := SafeLoad(loader, rd)
		v := View(res)
		views[li], srcs[li] = v, src
		deliveryStats(st, src)
		mid.Stats(st, ss)
		if li == 1 {
			straddleProbe(st, src, tr.Fields, src.Delivered)
		}
		st.Fault("io_error_inside_the_header_region", ioFault, src.ErrFired > 0)
		class := ""
		switch {
		case res.Panic != nil:
			class = "panic"
		case !v.OK && src.ErrFired > 0:
			// the source reported an I/O error during Load: failing is right;
			// succeeding with other values than the header's is not (below)
		case !v.OK:
			class = "unexpected-error"
		case v.Format != tr.Format:
			class = "format"
		case v.W != tr.W:
			class = "width"
		case v.H != tr.H:
			class = "height"
		case v.Bits != tr.Bits:
			class = "bits"
		}
		if class != "" && firstV == nil {
			firstV = &Violation{Class: class, Sig: loader.Name + ":" + tr.Format + ":" + class,
				Detail: fmt.Sprintf("%s on %s under %s: got %+v panic=%v, header says %s %dx%d %d bits", loader.Name, tr.Desc, cfg.String()+mid.String()+faultNote(cfg, src.ErrFired), v, res.Panic, tr.Format, tr.W, tr.H, tr.Bits)}
		}
	}
	if srcs[0].Delivered > 0 && srcs[1].Delivered > 0 {
		st.Mark(tape.Mix(tape.HashString(tr.Format+variant), uint64(tr.W), uint64(tr.H), uint64(tr.Bits), uint64(len(data)), srcs[1].LogHash))
	}
	render := func() interface{} {
		return map[string]interface{}{"input": tr.Desc, "input_len": len(data), "truth": fmt.Sprintf("%s %dx%d %d bits", tr.Format, tr.W, tr.H, tr.Bits),
			"delivery": cfg.String() + mid.String(), "delivery_log": srcs[1].LogString(), "specific_loader": views[0], "autometa": views[1], "input_hex": hex(data, 400)}
	}
	if st.WantSample() {
		st.Sample(render())
	}
	if firstV != nil {
		firstV.Render = render()
	}
	return firstV
}
