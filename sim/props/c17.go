package props

import (
	"bufio"
	"bytes"
	"fmt"

	"github.com/mandykoh/prism/meta/binary"
	"github.com/mandykoh/prism/meta/icc"

	"verif.local/sim/refmodel"
	"verif.local/sim/simio"
	"verif.local/sim/tape"
)

// C17 — the ICC description is found via the tag table and decoded as the
// right string.
type c17 struct{}

func init() { register(c17{}) }

func (c17) ID() string    { return "C17" }
func (c17) Level() string { return "exploration" }
func (c17) Rule() string {
	return "workload: generated well-formed profiles (0-64 tags in any table order, data blocks in table / reverse / shuffled order, shared between tags, aligned / 0-3 byte / no padding; desc as v2 textDescription with empty or populated Unicode part, or v4 mluc with 1-40 records, strings in table order / reverse / shared / overlapping windows of one pool, ASCII, BMP and surrogate-pair code points, 0-2000 characters, with 0, 1 or several 'en' records), read directly, through bufio, or embedded in a generated PNG / JPEG / WebP and reached through meta.Data.ICCProfile(), always from the simulated source under a drawn delivery schedule. Oracle: ReadProfile succeeds; Description() called 64 times must every time return a member of the acceptable set (strings of the 'en' records if any, else of all records; the ASCII text for v2). Non-trivial: the profile was consumed to its end; distinct = hash(profile bytes sample, route, delivery log)."
}
func (c17) Exhaustive(string) string { return "" }
func (c17) Runs(tier string) int64 {
	if tier == "thorough" {
		return 12000000
	}
	return 200000
}
func (c17) Prefix(string, int64) []uint64 { return nil }

func (c17) Run(t *tape.Tape, st *Stats) *Violation {
	st.Evals++
	prof := refmodel.DrawICC(t, refmodel.ICCOpts{BigText: t.Chance(1, 8)})
	route := t.Pick(3, 2, 3)
	var data []byte
	var fields []refmodel.Field
	container := ""
	switch route {
	case 0, 1:
		data, fields = prof.Bytes, prof.Fields
	default:
		var f *refmodel.File
		switch t.Intn(3) {
		case 0:
			p := refmodel.DrawPNG(t, 1, []int{1}, false)
			p.ICC, p.Damage = prof.Bytes, ""
			f = refmodel.BuildPNG(p)
		case 1:
			p := refmodel.DrawJPEG(t, 2, nil, false, nil)
			n := (len(prof.Bytes) + 65518) / 65519
			if t.Bool() && len(prof.Bytes) > 4 {
				n += 1 + t.Intn(3)
			}
			parts := refmodel.SplitICC(t.Sub(), prof.Bytes, n, false)
			var segs []refmodel.JPEGSeg
			for i, part := range parts {
				segs = append(segs, refmodel.JPEGSeg{Marker: 0xE2, Payload: append(append([]byte("ICC_PROFILE\x00"), byte(i+1), byte(n)), part...), Tag: fmt.Sprintf("ICC[%d/%d]", i+1, n)})
			}
			p.Segs = append(segs, p.Segs...)
			p.ICC, p.NChunks = prof.Bytes, n
			f = refmodel.BuildJPEG(p)
		default:
			p := refmodel.DrawWebP(t, 2, 1, []int{1}, false)
			p.ICC, p.Damage = prof.Bytes, ""
			f = refmodel.BuildWebP(p)
		}
		data, fields, container = f.Bytes(), f.Truth.Fields, f.Truth.Format
	}
	cfg := DrawDelivery(t, fields, true)
	src := simio.NewSource(simio.Bytes(data), cfg)
	how := ""
	var p *icc.Profile
	var err error
	var panicked interface{}
	func() {
		defer func() { panicked = recover() }()
		switch route {
		case 0:
			how = "icc.NewProfileReader(simulated binary.Reader)"
			p, err = icc.NewProfileReader(simio.ByteSource{Source: src}).ReadProfile()
		case 1:
			n := 16 + t.Intn(8177)
			how = fmt.Sprintf("icc.NewProfileReader(bufio.NewReaderSize(source, %d))", n)
			var rd binary.Reader = bufio.NewReaderSize(src, n)
			p, err = icc.NewProfileReader(rd).ReadProfile()
		default:
			loader := SpecificLoader(container)
			if t.Bool() {
				loader = LoaderAuto
			}
			how = loader.Name + ".Load -> meta.Data.ICCProfile()"
			md, _, lerr := loader.Fn(src)
			if lerr != nil || md == nil {
				err = fmt.Errorf("Load failed: %v", lerr)
				return
			}
			p, err = md.ICCProfile()
		}
	}()
	// a third of the runs read another profile (and ask for its description)
	// between reading this one and asking for its description: what Description()
	// returns must come from this profile's bytes, whatever the package did since
	interposed := t.Intn(3) == 0
	iseed := t.Draw(1 << 40)
	if interposed && p != nil {
		func() {
			defer func() { recover() }()
			other := refmodel.DrawICC(tape.New(iseed, nil), refmodel.ICCOpts{})
			if q, e := icc.NewProfileReader(bufio.NewReader(bytes.NewReader(other.Bytes))).ReadProfile(); e == nil && q != nil {
				q.Description()
			}
		}()
		how += ", another profile read before Description()"
	}
	st.Probe("another_profile_read_before_Description", interposed && p != nil)
	st.VerdictOrderDependent = len(prof.Records) > 1
	st.Class(fmt.Sprintf("route%d:%s:%s", route, container, prof.DescKind))
	deliveryStats(st, src)
	st.Probe("mluc_multi_record", len(prof.Records) > 1)
	st.Probe("mluc_without_en", prof.DescKind == "mluc" && len(prof.Acceptable) == len(prof.Records) && len(prof.Records) > 1)
	st.Probe("mluc_several_en", prof.DescKind == "mluc" && len(prof.Acceptable) > 1 && len(prof.Acceptable) < len(prof.Records))
	st.Probe("tag_count_zero", prof.NTags == 0)
	st.Probe("tags_sharing_data", prof.Shared > 0)
	st.Probe("empty_description_acceptable", prof.HasDesc && len(prof.Acceptable) == 1 && prof.Acceptable[0] == "")
	if src.Delivered >= int64(len(prof.Bytes)) {
		h := tape.Mix(uint64(len(prof.Bytes)), uint64(route), src.LogHash)
		for i := 128; i < len(prof.Bytes); i += 1 + len(prof.Bytes)/48 {
			h = tape.Mix(h, uint64(prof.Bytes[i]))
		}
		st.Mark(h)
	}
	var got []string
	render := func() interface{} {
		acc := prof.Acceptable
		if len(acc) > 6 {
			acc = acc[:6]
		}
		return map[string]interface{}{"profile": prof.Summary, "route": how, "container": container, "delivery": cfg.String(), "delivery_log": src.LogString(),
			"acceptable_descriptions": acc, "got_descriptions(distinct)": got, "read_error": fmt.Sprint(err), "profile_hex": hex(prof.Bytes, 700)}
	}
	fail := func(class, detail string) *Violation {
		return &Violation{Class: class, Sig: class + ":" + prof.DescKind, Detail: detail + " [" + prof.Summary + " via " + how + "]", Render: render(), OwnHistory: interposed}
	}
	defer func() {
		if st.WantSample() {
			st.Sample(render())
		}
	}()
	if panicked != nil {
		return fail("panic", fmt.Sprintf("panicked: %v", panicked))
	}
	if err != nil || p == nil {
		return fail("read-failed", fmt.Sprintf("reading a well-formed profile failed: %v", err))
	}
	if !prof.HasDesc {
		return nil
	}
	ok := map[string]bool{}
	for _, a := range prof.Acceptable {
		ok[a] = true
	}
	seen := map[string]bool{}
	for i := 0; i < 64; i++ {
		var d string
		var derr error
		func() {
			defer func() {
				if r := recover(); r != nil {
					panicked = r
				}
			}()
			d, derr = p.Description()
		}()
		if panicked != nil {
			return fail("panic", fmt.Sprintf("Description panicked: %v", panicked))
		}
		if derr != nil {
			return fail("description-error", fmt.Sprintf("Description() failed: %v", derr))
		}
		if !seen[d] {
			seen[d] = true
			got = append(got, d)
		}
		if !ok[d] {
			return fail("wrong-description", fmt.Sprintf("Description() = %q, which is not the string of an acceptable record (acceptable: %d strings, e.g. %q)", trunc(d, 80), len(prof.Acceptable), trunc(prof.Acceptable[0], 80)))
		}
	}
	return nil
}
