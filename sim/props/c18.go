package props

import (
	"fmt"

	"verif.local/sim/refmodel"
	"verif.local/sim/simio"
	"verif.local/sim/tape"
)

// C18 — metadata is read without consuming the image body.
type c18 struct{}

func init() { register(c18{}) }

func (c18) ID() string    { return "C18" }
func (c18) Level() string { return "exploration" }
func (c18) Rule() string {
	return "workload: generated well-formed PNG / JPEG / WebP files x {no profile, profile early, profile after other ancillary data} x pixel-data body of 0, 1 KiB, 70 KiB, 1 MiB, 16 MiB or 64 MiB generated lazily by offset (never materialised), served by the simulated source, which counts what Load pulls, under every delivery policy, through the specific loader and autometa. Oracle 1: bytes delivered when Load returns <= NeededEnd + 64 KiB, NeededEnd computed by the generator (end of IHDR/iCCP or of the first IDAT chunk header; end of the later of SOFn / last ICC APP2 or of the SOS header; 10 bytes into VP8, 5 into VP8L, end of VP8X or of ICCP). Oracle 2: loading the file cut at NeededEnd + {0,1,4096} gives the same result as the whole file. Non-trivial: body >= 70 KiB (over-reading would be visible); distinct = hash(format, ICC placement, body size, loader, delivery log)."
}
func (c18) Exhaustive(string) string { return "" }
func (c18) Runs(tier string) int64 {
	if tier == "thorough" {
		return 8000000
	}
	return 150000
}
func (c18) Prefix(string, int64) []uint64 { return nil }

var c18bodies = []int64{0, 1 << 10, 70 << 10, 1 << 20, 16 << 20, 64 << 20}

func (c18) Run(t *tape.Tape, st *Stats) *Violation {
	st.Evals++
	body := c18bodies[t.Pick(1, 1, 3, 3, 2, 2)]
	if t.Bool() {
		body += int64(t.Intn(5000))
	}
	withICC := 1 + t.Intn(2) // 1 present, 2 absent
	sizes := []int{1, 500, 3000, 5000, 20000, 70000, 200000}
	if t.Chance(1, 60) {
		// metadata regions of several hundred KiB to megabytes: read-ahead that
		// grows with what has been consumed only shows there
		sizes = []int{300000 + t.Intn(400000), 700000 + t.Intn(800000), 1500000 + t.Intn(2000000)}
	}
	var f *refmodel.File
	switch t.Intn(3) {
	case 0:
		p := refmodel.DrawPNG(t, withICC, sizes, false)
		p.BodyLen = body
		f = refmodel.BuildPNG(p)
	case 1:
		p := refmodel.DrawJPEG(t, withICC, sizes, false, nil)
		p.BodyLen = body
		f = refmodel.BuildJPEG(p)
		// one JPEG in thirty defers its number of lines to a DNL segment behind the
		// first scan (height 0 in the frame header): the pixel data lies between
		// the scan header and that segment, and a metadata reader has no business
		// there - the file cut behind the scan header must load like the whole file
		if dnl, lines := t.Intn(30) == 0, 1+t.Intn(65535); dnl {
			for _, fl := range f.Truth.Fields {
				if fl.Name == "SOF.height" {
					f.Head[fl.Off], f.Head[fl.Off+1] = 0, 0
					tail := []byte{0xFF, 0xDC, 0x00, 0x04, byte(lines >> 8), byte(lines), 0xFF, 0xD9}
					f.TailLen, f.TailFn = int64(len(tail)), func() []byte { return tail }
					f.Truth.H = 0
					f.Truth.Desc += fmt.Sprintf(" [number of lines deferred to a DNL segment behind the scan: %d]", lines)
				}
			}
		}
	default:
		p := refmodel.DrawWebP(t, -1, withICC, sizes, false)
		p.BodyLen = body
		f = refmodel.BuildWebP(p)
	}
	tr := f.Truth
	loader := SpecificLoader(tr.Format)
	if t.Bool() {
		loader = LoaderAuto
	}
	cfg := DrawDelivery(t, tr.Fields, true)
	stored := f.Stored()
	src := simio.NewSource(stored, cfg)
	res := SafeLoad(loader, src)
	pulled := src.Delivered
	v := View(res)
	delta := int64([...]int{0, 1, 4096}[t.Intn(3)])
	cut := int64(tr.NeededEnd) + delta
	if cut > stored.Len() {
		cut = stored.Len()
	}
	// the cut file is served either all at once or under the same schedule, and
	// its last bytes arrive alone or together with EOF
	ccfg := simio.Config{TruncAt: cut, ErrAt: -1}
	if t.Bool() {
		ccfg = cfg
		ccfg.TruncAt = cut
	}
	ccfg.EOFWithData = t.Bool()
	csrc := simio.NewSource(stored, ccfg)
	cres := SafeLoad(loader, csrc)
	cv := View(cres)

	st.Class(fmt.Sprintf("%s:icc-%s", tr.Format, tr.ICCState))
	deliveryStats(st, src)
	st.Probe("body_64MiB", body >= 64<<20)
	st.Probe("body_16MiB", body >= 16<<20 && body < 64<<20)
	st.Probe("icc_after_other_ancillary_data", tr.ICCPayloadOff > 200)
	st.Probe("loader_chain(autometa on non-PNG)", loader.Name == "autometa" && tr.Format != "PNG")
	st.Fault("truncation_just_after_needed_end", true, csrc.TruncFired() || csrc.Delivered >= cut)
	if body >= 70<<10 {
		st.Mark(tape.Mix(tape.HashString(tr.Format+loader.Name), uint64(tr.ICCPayloadOff+1), uint64(len(tr.ICC)), uint64(body), src.LogHash))
	}
	render := func() interface{} {
		return map[string]interface{}{"input": tr.Desc, "file_len": stored.Len(), "needed_end": tr.NeededEnd, "loader": loader.Name,
			"delivery": cfg.String(), "delivery_log": src.LogString(), "pulled_when_Load_returned": pulled, "allowed": int64(tr.NeededEnd) + 65536,
			"result_whole": v, "cut_at": cut, "cut_delivery": ccfg.String(), "result_cut": cv}
	}
	if st.WantSample() {
		st.Sample(render())
	}
	fail := func(class, detail string) *Violation {
		return &Violation{Class: class, Sig: loader.Name + ":" + tr.Format + ":" + class, Detail: detail + " [" + trunc(tr.Desc, 260) + " via " + loader.Name + " under " + cfg.String() + "]", Render: render()}
	}
	if res.Panic != nil || cres.Panic != nil {
		return fail("panic", fmt.Sprintf("Load panicked: %v / %v", res.Panic, cres.Panic))
	}
	if pulled > int64(tr.NeededEnd)+65536 {
		return fail("over-read", fmt.Sprintf("Load pulled %d bytes from the source; the last needed structure ends at %d (+64 KiB read-ahead allowed) in a %d-byte file", pulled, tr.NeededEnd, stored.Len()))
	}
	if !v.OK {
		return fail("unexpected-error", fmt.Sprintf("Load failed on a well-formed file: %s", v.Err))
	}
	if ok, class := SameOutcome(v, cv); !ok {
		return fail("truncated-differs", fmt.Sprintf("file cut at %d (needed end %d + %d): %+v; whole file: %+v (%s)", cut, tr.NeededEnd, delta, cv, v, class))
	}
	return nil
}
