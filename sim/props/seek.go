package props

import (
	"io"

	"verif.local/sim/simio"
	"verif.local/sim/tape"
)

// MidFile decides, for one run in eight, that the reader handed to the loaders
// is a working io.ReadSeeker positioned mid-file: other bytes (another valid
// image, or junk) precede the image on the simulated medium. The image - and
// "the complete input" of C07 - is what the reader delivers from the position
// it is handed over at. Two tape values, always drawn.
type MidFile struct {
	On     bool
	Prefix []byte
}

func DrawMidFile(t *tape.Tape) MidFile {
	on := t.Intn(8) == 0
	seed := t.Draw(1 << 40)
	if !on {
		return MidFile{}
	}
	m := MidFile{On: true}
	if seed%3 == 0 {
		r := tape.NewRand(seed)
		m.Prefix = make([]byte, 1+r.Intn(6000))
		r.Fill(m.Prefix)
	} else {
		m.Prefix = GenValid(tape.New(seed, nil), false, []int{1, 300}).Bytes()
	}
	return m
}

// Wrap returns the reader to hand to a loader.
func (m MidFile) Wrap(src *simio.Source) (io.Reader, *simio.SeekSource) {
	if !m.On {
		return src, nil
	}
	ss := &simio.SeekSource{Source: src, Prefix: m.Prefix}
	return ss, ss
}

func (m MidFile) Stats(st *Stats, ss *simio.SeekSource) {
	st.Fault("reader_is_a_ReadSeeker_positioned_mid_file", m.On, m.On)
	st.Probe("loader_called_Seek", ss != nil && ss.Seeks > 0)
}

func (m MidFile) String() string {
	if !m.On {
		return ""
	}
	return " [reader is an io.ReadSeeker handed over at offset " + itoa(len(m.Prefix)) + " of a larger file]"
}

func itoa(n int) string {
	if n == 0 {
		return "0"
	}
	s := ""
	for ; n > 0; n /= 10 {
		s = string(rune('0'+n%10)) + s
	}
	return s
}
