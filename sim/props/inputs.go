package props

import (
	"fmt"

	"verif.local/sim/refmodel"
	"verif.local/sim/tape"
)

// Input is one stored byte string with whatever is known about it.
type Input struct {
	Class  string
	Desc   string
	Data   []byte
	Fields []refmodel.Field
	Truth  *refmodel.Truth // set when the generators vouch for the file (valid, or valid with damaged ICC)
	Faults []string        // stored-byte faults applied
}

// GenValid draws a generator-valid file of a drawn format (small bodies).
func GenValid(t *tape.Tape, allowICCDamage bool, iccSizes []int) *refmodel.File {
	switch t.Intn(3) {
	case 0:
		return refmodel.BuildPNG(refmodel.DrawPNG(t, 0, iccSizes, allowICCDamage))
	case 1:
		return refmodel.BuildJPEG(refmodel.DrawJPEG(t, 0, iccSizes, allowICCDamage, nil))
	default:
		return refmodel.BuildWebP(refmodel.DrawWebP(t, -1, 0, iccSizes, allowICCDamage))
	}
}

// BoundaryValues lists the values a length/count/offset field is overwritten
// with: small constants, neighbours of the current value, powers of two and
// their neighbours, values relative to what really remains in the file, and
// values whose sum with typical offsets wraps 2^32.
func BoundaryValues(cur uint64, remaining int64, width int) []uint64 {
	max := uint64(1)<<(8*uint(width)) - 1
	if width >= 8 {
		max = ^uint64(0)
	}
	vs := []uint64{0, 1, 2, 3, 4, 7, 8, 9, 10, 11, 12, 13, 14, 16, 20, 0x7F, 0x80, 0xFF, 0x100, 0x101, 0xFFFF, 0x10000,
		1<<31 - 1, 1 << 31, 1<<32 - 1, 1<<32 - 2, 1<<32 - 4, 1<<32 - 8, 1<<32 - 12, 1<<32 - 16, 1<<32 - 128, 1<<32 - 132, 1<<32 - 144,
		cur + 1, cur - 1, cur * 2, cur + 4, cur - 4,
		uint64(remaining), uint64(remaining + 1), uint64(remaining - 1), uint64(remaining + 4096), uint64(remaining + 65536)}
	out := vs[:0]
	for _, v := range vs {
		out = append(out, v&max)
	}
	return out
}

// ApplyStoredFault damages data in place (or returns a new slice) and
// describes what it did.
func ApplyStoredFault(t *tape.Tape, data []byte, fields []refmodel.Field) ([]byte, string) {
	if len(data) == 0 {
		return data, "none(empty)"
	}
	var lens []refmodel.Field
	var types []refmodel.Field
	for _, f := range fields {
		if f.Off+f.Width > len(data) {
			continue
		}
		switch f.Kind {
		case "length", "count", "offset", "dim":
			lens = append(lens, f)
		case "type", "flag", "sig":
			types = append(types, f)
		}
	}
	kind := t.Pick(5, 3, 1, 1, 1)
	switch {
	case kind == 0 && len(lens) > 0:
		f := lens[t.Intn(len(lens))]
		var cur uint64
		if f.LE {
			cur = refmodel.GetLE(data, f.Off, f.Width)
		} else {
			cur = refmodel.GetBE(data, f.Off, f.Width)
		}
		vs := BoundaryValues(cur, int64(len(data)-f.Off-f.Width), f.Width)
		v := vs[t.Intn(len(vs))]
		if f.LE {
			refmodel.PutLE(data, f.Off, f.Width, v)
		} else {
			refmodel.PutBE(data, f.Off, f.Width, v)
		}
		return data, fmt.Sprintf("set %s@%d = %#x (was %#x)", f.Name, f.Off, v, cur)
	case kind == 2 && len(types) > 0:
		f := types[t.Intn(len(types))]
		r := t.Sub()
		i := f.Off + r.Intn(f.Width)
		old := data[i]
		data[i] = byte(r.Intn(256))
		return data, fmt.Sprintf("overwrite %s byte@%d %#x->%#x", f.Name, i, old, data[i])
	case kind == 3:
		n := t.Intn(len(data))
		return data[:n], fmt.Sprintf("stored-truncate@%d", n)
	case kind == 4 && len(data) > 16:
		// splice: the tail of the file is replaced by its own head (structures repeat)
		at := 8 + t.Intn(len(data)-8)
		out := append(append([]byte{}, data[:at]...), data[:len(data)-at]...)
		return out, fmt.Sprintf("splice head over tail@%d", at)
	default:
		r := t.Sub()
		n := 1 + t.Intn(8)
		d := ""
		for i := 0; i < n; i++ {
			o := r.Intn(len(data))
			b := byte(1) << uint(r.Intn(8))
			data[o] ^= b
			if i < 3 {
				d += fmt.Sprintf(" %d^%#x", o, b)
			}
		}
		return data, fmt.Sprintf("flip %d bit(s):%s", n, d)
	}
}

// InputWeights selects the input classes DrawInput may produce.
type InputWeights struct {
	Corpus, Valid, ICCDamaged, Damaged, Random, SigJunk, Polyglot, Empty int
	// ShortSOF: a valid JPEG into which a second, too short frame header is
	// inserted after the real one (or in place of it): the parser indexes the
	// segment unchecked, so this is the input on which a loader's internal panic
	// happens after (or before) basic metadata was extracted
	ShortSOF int
	// Soup: a grammar-level fuzz of each container - a drawn sequence of
	// recognised (and a few unknown) markers / chunks with declared lengths from
	// {0,1,2,3,4,8,9,12,13, actual, actual+-1, huge}, with or without the leading
	// signature. Neither valid nor a damaged valid file: the inputs on which
	// "first structure of the stream" corner cases live.
	Soup int
}

var signatures = [][]byte{
	{0x89, 'P', 'N', 'G', 0x0D, 0x0A, 0x1A, 0x0A},
	{0xFF, 0xD8},
	[]byte("RIFF\x00\x10\x00\x00WEBP"),
	[]byte("RIFF\x00\x10\x00\x00WEBPVP8X\x0a\x00\x00\x00\x20\x00\x00\x00\x10\x00\x00\x10\x00\x00"),
	{0xFF, 0xD8, 0xFF, 0xE0, 0x00, 0x10},
	{0x89, 'P', 'N', 'G', 0x0D, 0x0A, 0x1A, 0x0A, 0, 0, 0, 13, 'I', 'H', 'D', 'R'},
}

// DrawInput draws one input.
func DrawInput(t *tape.Tape, w InputWeights, iccSizes []int) Input {
	switch t.Pick(w.Corpus, w.Valid, w.ICCDamaged, w.Damaged, w.Random, w.SigJunk, w.Polyglot, w.Empty, w.ShortSOF, w.Soup) {
	case 9:
		return drawSoup(t)
	case 8:
		f := refmodel.BuildJPEG(refmodel.DrawJPEG(t, 0, iccSizes, false, nil))
		b := f.Bytes()
		at := -1
		for _, fl := range f.Truth.Fields {
			if fl.Name == "SOF.precision" {
				at = fl.Off - 4 // start of the SOF marker
			}
		}
		if at < 0 {
			return Input{Class: "valid", Desc: f.Truth.Desc, Data: b, Fields: f.Truth.Fields}
		}
		sofLen := int(refmodel.GetBE(b, at+2, 2))
		short := []byte{0xFF, b[at+1], 0, byte(2 + t.Intn(5))}
		short = append(short, make([]byte, int(short[3])-2)...)
		var data []byte
		mode := "after"
		if t.Bool() {
			data = append(append(append([]byte{}, b[:at+2+sofLen]...), short...), b[at+2+sofLen:]...)
		} else {
			mode = "instead of"
			data = append(append(append([]byte{}, b[:at]...), short...), b[at+2+sofLen:]...)
		}
		return Input{Class: "jpeg-short-sof", Desc: fmt.Sprintf("%s + a %d-byte frame header %s the real one", trunc(f.Truth.Desc, 120), short[3], mode), Data: data,
			Faults: []string{"short second SOF"}}
	case 0:
		c := Corpus()
		f := c[t.Intn(len(c))]
		return Input{Class: "corpus", Desc: f.Name, Data: f.Data, Fields: f.Fields}
	case 1:
		f := GenValid(t, false, iccSizes)
		tr := f.Truth
		return Input{Class: "valid", Desc: tr.Desc, Data: f.Bytes(), Fields: tr.Fields, Truth: &tr}
	case 2:
		f := GenValid(t, true, iccSizes)
		tr := f.Truth
		return Input{Class: "valid-or-icc-damaged", Desc: tr.Desc, Data: f.Bytes(), Fields: tr.Fields, Truth: &tr}
	case 3:
		var data []byte
		var fields []refmodel.Field
		desc := ""
		if t.Bool() {
			c := Corpus()
			f := c[t.Intn(len(c))]
			data, fields, desc = append([]byte{}, f.Data...), f.Fields, f.Name
		} else {
			f := GenValid(t, true, iccSizes)
			data, fields, desc = append([]byte{}, f.Bytes()...), f.Truth.Fields, f.Truth.Desc
		}
		n := 1 + t.Pick(6, 2, 1)
		var faults []string
		for i := 0; i < n; i++ {
			var d string
			data, d = ApplyStoredFault(t, data, fields)
			faults = append(faults, d)
		}
		return Input{Class: "damaged", Desc: desc, Data: data, Fields: fields, Faults: faults}
	case 4:
		n := [...]int{1, 7, 16, 100, 5000}[t.Intn(5)]
		b := make([]byte, n)
		t.Sub().Fill(b)
		return Input{Class: "random", Desc: fmt.Sprintf("%d random bytes", n), Data: b}
	case 5:
		sig := signatures[t.Intn(len(signatures))]
		n := [...]int{0, 3, 40, 4090, 4200, 9000}[t.Intn(6)]
		b := make([]byte, n)
		t.Sub().Fill(b)
		return Input{Class: "signature+junk", Desc: fmt.Sprintf("signature %q + %d random bytes", sig, n), Data: append(append([]byte{}, sig...), b...)}
	case 6:
		// the first bytes satisfy one format's signature, the rest is another format's file
		a := GenValid(t, false, []int{1, 300, 5000})
		b := GenValid(t, false, []int{1, 300, 5000})
		ab, bb := a.Bytes(), b.Bytes()
		var data []byte
		mode := t.Intn(4)
		if mode == 3 {
			// B embedded whole in an ancillary structure of a valid A (a PNG private
			// chunk right after IHDR, a JPEG comment segment right after SOI): A is
			// still a valid file of its own format
			small := GenValid(t, false, []int{1, 300})
			sb := small.Bytes()
			if len(sb) > 60000 {
				sb = sb[:60000]
			}
			var host *refmodel.File
			if t.Bool() {
				pp := refmodel.DrawPNG(t, 0, []int{1, 300}, false)
				pp.Pre = append([]refmodel.PNGChunk{{Type: "prVt", Data: sb}}, pp.Pre...)
				host = refmodel.BuildPNG(pp)
			} else {
				jp := refmodel.DrawJPEG(t, 0, []int{1, 300}, false, nil)
				jp.Segs = append([]refmodel.JPEGSeg{{Marker: 0xFE, Payload: sb, Tag: "COM(embedded file)"}}, jp.Segs...)
				host = refmodel.BuildJPEG(jp)
			}
			tr := host.Truth
			return Input{Class: "polyglot", Desc: fmt.Sprintf("polyglot mode 3: %s embedded in an ancillary structure of %s", trunc(small.Truth.Desc, 60), trunc(tr.Desc, 60)),
				Data: host.Bytes(), Fields: tr.Fields}
		}
		switch mode {
		case 0: // signature of A, then all of B
			n := 8
			if a.Truth.Format == "JPEG" {
				n = 2
			} else if a.Truth.Format == "WebP" {
				n = 12
			}
			data = append(append([]byte{}, ab[:n]...), bb...)
		case 1: // A cut at a drawn structure boundary, then all of B
			cut := 0
			if len(a.Truth.Fields) > 0 {
				cut = a.Truth.Fields[t.Intn(len(a.Truth.Fields))].Off
			}
			data = append(append([]byte{}, ab[:cut]...), bb...)
		default: // signature of A + padding to beyond one buffer, then B
			n := 8
			if n > len(ab) {
				n = len(ab)
			}
			pad := make([]byte, 4096+t.Intn(200))
			data = append(append(append([]byte{}, ab[:n]...), pad...), bb...)
		}
		return Input{Class: "polyglot", Desc: fmt.Sprintf("polyglot mode %d: %s | %s", mode, trunc(a.Truth.Desc, 60), trunc(b.Truth.Desc, 60)), Data: data}
	default:
		return Input{Class: "empty", Desc: "empty input", Data: nil}
	}
}

func soupLen(t *tape.Tape, actual int) int {
	switch t.Pick(6, 2, 2, 1) {
	case 0:
		return actual
	case 1:
		return [...]int{0, 1, 2, 3, 4, 8, 9, 12, 13, 14}[t.Intn(10)]
	case 2:
		return actual + t.Intn(3) - 1
	default:
		return [...]int{0xFFFF, 0x7FFFFFFF, 0xFFFFFFF0}[t.Intn(3)]
	}
}

// drawSoup builds a marker / chunk soup of a drawn container format.
func drawSoup(t *tape.Tape) Input {
	r := t.Sub()
	rnd := func(n int) []byte { b := make([]byte, n); r.Fill(b); return b }
	var b []byte
	desc := ""
	n := 1 + t.Intn(6)
	switch t.Intn(3) {
	case 0: // JPEG
		desc = "JPEG soup:"
		if t.Chance(7, 10) {
			b = append(b, 0xFF, 0xD8)
			desc += " SOI"
		}
		markers := []byte{0xC0, 0xC2, 0xC4, 0xDA, 0xDB, 0xDD, 0xE0, 0xE1, 0xE2, 0xE2, 0xEE, 0xFE, 0xD0, 0xD9, 0xD8, 0xC1, 0x01, 0xFF}
		for i := 0; i < n; i++ {
			m := markers[t.Intn(len(markers))]
			var payload []byte
			switch t.Intn(4) {
			case 0:
				payload = []byte{8, 0, byte(1 + r.Intn(200)), 0, byte(1 + r.Intn(200)), 3, 1, 0x11, 0, 2, 0x11, 1, 3, 0x11, 1}
			case 1:
				payload = append([]byte("ICC_PROFILE\x00"), byte(r.Intn(3)), byte(r.Intn(3)))
				payload = append(payload, rnd(r.Intn(40))...)
			case 2:
				payload = rnd(r.Intn(30))
			}
			b = append(b, 0xFF, m)
			if (m >= 0xD0 && m <= 0xD9) || m == 0x01 || m == 0xFF {
				desc += fmt.Sprintf(" %02X", m)
				continue
			}
			l := soupLen(t, len(payload)+2)
			b = append(b, byte(l>>8), byte(l))
			b = append(b, payload...)
			desc += fmt.Sprintf(" %02X(len %d, %d bytes)", m, l&0xFFFF, len(payload))
		}
	case 1: // PNG
		desc = "PNG soup:"
		if t.Chance(8, 10) {
			b = append(b, signatures[0]...)
			desc += " sig"
		}
		types := []string{"IHDR", "IHDR", "iCCP", "iCCP", "IDAT", "IEND", "tEXt", "PLTE", "ihdr", "\x00\x00\x00\x00"}
		for i := 0; i < n; i++ {
			typ := types[t.Intn(len(types))]
			var payload []byte
			switch t.Intn(4) {
			case 0:
				payload = []byte{0, 0, 0, byte(1 + r.Intn(200)), 0, 0, 0, byte(1 + r.Intn(200)), 8, 2, 0, 0, 0}
			case 1:
				payload = append([]byte("n\x00\x00"), 0x78, 0x9c, 0x63, 0x60, 0x00, 0x00, 0x00, 0x02, 0x00, 0x01)
			case 2:
				payload = rnd(r.Intn(30))
			}
			l := uint32(soupLen(t, len(payload)))
			b = append(b, byte(l>>24), byte(l>>16), byte(l>>8), byte(l))
			b = append(b, typ...)
			b = append(b, payload...)
			if t.Chance(4, 5) {
				b = append(b, rnd(4)...) // CRC (never checked by a metadata reader, random here)
			}
			desc += fmt.Sprintf(" %q(len %d, %d bytes)", typ, l, len(payload))
		}
	default: // WebP
		desc = "WebP soup:"
		if t.Chance(8, 10) {
			sz := uint32(soupLen(t, 100))
			b = append(b, 'R', 'I', 'F', 'F', byte(sz), byte(sz>>8), byte(sz>>16), byte(sz>>24))
			b = append(b, [...]string{"WEBP", "WEBP", "WEBP", "WEB", "webp"}[t.Intn(5)]...)
			desc += " RIFF/WEBP"
		}
		types := []string{"VP8 ", "VP8L", "VP8X", "VP8X", "ICCP", "ICCP", "ANIM", "vp8x"}
		for i := 0; i < n; i++ {
			typ := types[t.Intn(len(types))]
			var payload []byte
			switch t.Intn(4) {
			case 0:
				payload = []byte{0x20, 0, 0, 0, byte(r.Intn(256)), 0, 0, byte(r.Intn(256)), 0, 0}
			case 1:
				payload = []byte{0x10, 0, 0, 0x9d, 0x01, 0x2a, 8, 0, 8, 0}
			case 2:
				payload = append([]byte{0x2f}, rnd(4+r.Intn(20))...)
			default:
				payload = rnd(r.Intn(30))
			}
			l := uint32(soupLen(t, len(payload)))
			b = append(b, typ...)
			b = append(b, byte(l), byte(l>>8), byte(l>>16), byte(l>>24))
			b = append(b, payload...)
			desc += fmt.Sprintf(" %q(len %d, %d bytes)", typ, l, len(payload))
		}
	}
	return Input{Class: "soup", Desc: trunc(desc, 260), Data: b, Fields: refmodel.WalkFields(b), Faults: []string{"structure soup"}}
}
