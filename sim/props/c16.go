package props

import (
	"bufio"
	"bytes"
	"fmt"
	"time"

	"github.com/mandykoh/prism/meta"
	"github.com/mandykoh/prism/meta/binary"
	"github.com/mandykoh/prism/meta/icc"

	"verif.local/sim/refmodel"
	"verif.local/sim/simio"
	"verif.local/sim/tape"
)

// C16 — ICC header fields are decoded exactly as ICC.1 lays them out.
type c16 struct{}

func init() { register(c16{}) }

func (c16) ID() string    { return "C16" }
func (c16) Level() string { return "exploration" }
func (c16) Rule() string {
	return "workload: 128-byte headers followed by a generated tag table: walking one over all 1024 bit positions of an otherwise zero header (signature in place), walking zero over an all-ones header, every value of the two version bytes, date-time extremes, all-zero / all-ones, and drawn random headers, with and without the 'acsp' signature (input enumeration run through the simulator, labelled as such). The profile is read through the simulated binary.Reader or a bufio.Reader of drawn size under a drawn delivery schedule (the only place delivery can matter is the 16-byte profile-ID read). Reference model: an independent decoder of the ICC.1:2010 7.2 header table (offset, width, big-endian; flags bit 0 = embedded, bit 1 = cannot be used independently; version = byte 8, high / low nibble of byte 9). Oracle: every exported Header field and Version.String() equal the model; no signature => error. Non-trivial: the header was consumed; distinct = hash(header bytes)."
}
func (c16) Exhaustive(tier string) string {
	return "walking-one and walking-zero over all 1024 header bit positions, all 65536 values of the two version bytes, the date-time extreme list"
}

var c16dates = [][6]uint16{
	{1990, 1, 1, 0, 0, 0}, {2038, 1, 19, 3, 14, 7}, {1970, 1, 1, 0, 0, 0}, {2000, 2, 29, 23, 59, 59}, {9999, 12, 31, 23, 59, 59},
	{1, 1, 1, 0, 0, 0}, {65535, 12, 31, 23, 59, 59}, {2024, 12, 31, 0, 0, 59}, {2023, 6, 30, 12, 30, 30}, {1999, 12, 31, 23, 59, 0},
	{0x0102, 3, 4, 5, 6, 7}, {2016, 2, 29, 1, 2, 3},
}

func c16enumCount() int64 { return 1024 + 1024 + 65536 + int64(len(c16dates)) + 2 }

func (c16) Runs(tier string) int64 {
	if tier == "thorough" {
		return c16enumCount() + 20000000
	}
	return c16enumCount() + 60000
}
func (c16) Prefix(tier string, i int64) []uint64 {
	switch {
	case i < 1024:
		return []uint64{0, uint64(i)}
	case i < 2048:
		return []uint64{1, uint64(i - 1024)}
	case i < 2048+65536:
		return []uint64{2, uint64(i - 2048)}
	case i < 2048+65536+int64(len(c16dates)):
		return []uint64{3, uint64(i - 2048 - 65536)}
	case i < c16enumCount():
		return []uint64{4, uint64(i - 2048 - 65536 - int64(len(c16dates)))}
	}
	return []uint64{5}
}

// modelHeader decodes a header per the ICC.1:2010 profile header table.
type modelHeader struct {
	Size, CMM              uint32
	Major, MinorBugfix     byte
	Class, Space, PCS      uint32
	Date                   [6]uint16
	Magic, Platform, Flags uint32
	Manufacturer, Model    uint32
	Attributes             uint64
	Intent                 uint32
	Illuminant             [3]uint32
	Creator                uint32
	ID                     [16]byte
}

func decodeHeaderModel(b []byte) modelHeader {
	be32 := func(o int) uint32 { return uint32(refmodel.GetBE(b, o, 4)) }
	var m modelHeader
	m.Size, m.CMM = be32(0), be32(4)
	m.Major, m.MinorBugfix = b[8], b[9]
	m.Class, m.Space, m.PCS = be32(12), be32(16), be32(20)
	for i := 0; i < 6; i++ {
		m.Date[i] = uint16(refmodel.GetBE(b, 24+2*i, 2))
	}
	m.Magic, m.Platform, m.Flags = be32(36), be32(40), be32(44)
	m.Manufacturer, m.Model = be32(48), be32(52)
	m.Attributes = refmodel.GetBE(b, 56, 8)
	m.Intent = be32(64)
	m.Illuminant = [3]uint32{be32(68), be32(72), be32(76)}
	m.Creator = be32(80)
	copy(m.ID[:], b[84:100])
	return m
}

func daysIn(year, month int) int {
	switch month {
	case 4, 6, 9, 11:
		return 30
	case 2:
		if year%4 == 0 && (year%100 != 0 || year%400 == 0) {
			return 29
		}
		return 28
	}
	return 31
}

func (c16) Run(t *tape.Tape, st *Stats) *Violation {
	st.Evals++
	mode := t.Intn(6)
	hdr := make([]byte, 128)
	copy(hdr[36:], "acsp")
	what := ""
	switch mode {
	case 0:
		i := t.Intn(1024)
		hdr[i/8] ^= 0x80 >> uint(i%8)
		what = fmt.Sprintf("walking-one bit %d (byte %d mask %#x)", i, i/8, 0x80>>uint(i%8))
	case 1:
		i := t.Intn(1024)
		for j := range hdr {
			hdr[j] = 0xFF
		}
		copy(hdr[36:], "acsp")
		hdr[i/8] ^= 0x80 >> uint(i%8)
		what = fmt.Sprintf("walking-zero bit %d", i)
	case 2:
		v := t.Intn(65536)
		hdr[8], hdr[9] = byte(v>>8), byte(v)
		what = fmt.Sprintf("version bytes %02x %02x", hdr[8], hdr[9])
	case 3:
		d := c16dates[t.Intn(len(c16dates))]
		for i, x := range d {
			refmodel.PutBE(hdr, 24+2*i, 2, uint64(x))
		}
		what = fmt.Sprintf("date %v", d)
	case 4:
		if t.Intn(2) == 1 {
			for j := range hdr {
				hdr[j] = 0xFF
			}
			copy(hdr[36:], "acsp")
			what = "all ones"
		} else {
			what = "all zeros"
		}
	default:
		t.Sub().Fill(hdr)
		switch t.Pick(8, 1, 1) {
		case 0:
			copy(hdr[36:], "acsp")
		case 1:
			// signature absent: one byte off
			copy(hdr[36:], "acsp")
			hdr[36+t.Intn(4)] ^= byte(1 + t.Intn(255))
		}
		// a valid date-time in most runs so that CreatedAt is compared
		if t.Chance(3, 4) {
			y := 1 + t.Intn(9999)
			if t.Chance(1, 4) {
				y = 1 + t.Intn(65535) // uInt16Number: the whole range is a year
			}
			mo := 1 + t.Intn(12)
			refmodel.PutBE(hdr, 24, 2, uint64(y))
			refmodel.PutBE(hdr, 26, 2, uint64(mo))
			refmodel.PutBE(hdr, 28, 2, uint64(1+t.Intn(daysIn(y, mo))))
			refmodel.PutBE(hdr, 30, 2, uint64(t.Intn(24)))
			refmodel.PutBE(hdr, 32, 2, uint64(t.Intn(60)))
			refmodel.PutBE(hdr, 34, 2, uint64(t.Intn(60)))
		}
		what = "random header"
		if t.Chance(3, 4) {
			// bytes 100..127 are reserved and zero in every real profile (a reader that
			// has lost its place reads the tag count from them)
			for i := 100; i < 128; i++ {
				hdr[i] = 0
			}
			what = "random header, reserved bytes zero"
		}
	}
	prof := refmodel.DrawICC(t, refmodel.ICCOpts{RawHeader: hdr, KeepSize: true, MaxTags: 6})
	data := prof.Bytes
	m := decodeHeaderModel(data)
	cfg := DrawDelivery(t, prof.Fields, true)
	ioFault := DrawIOFault(t, &cfg, nil, 127)
	if mode != 5 && ioFault {
		ioFault, cfg.ErrAt = false, -1 // the bit sweeps are enumerations: every case is judged
	}
	src := simio.NewSource(simio.Bytes(data), cfg)
	var rd binary.Reader = simio.ByteSource{Source: src}
	how := "simulated binary.Reader"
	if t.Bool() {
		n := 16 + t.Intn(300)
		rd = bufio.NewReaderSize(src, n)
		how = fmt.Sprintf("bufio.NewReaderSize(source, %d)", n)
	}
	// two-step history: in a quarter of the runs another profile is read first, in
	// the same run, whose header carries the same profile ID (bytes 84..99) and
	// otherwise other bytes - ICC.1 computes the ID with flags, intent and the ID
	// field zeroed, and writers may leave it stale, so equal IDs do not mean equal
	// headers. What this header decodes to must not depend on that read.
	earlierRead := t.Intn(4) == 0
	hseed := t.Draw(1 << 40)
	if earlierRead {
		h2 := make([]byte, 128)
		tape.NewRand(hseed).Fill(h2)
		copy(h2[36:], "acsp")
		copy(h2[84:100], hdr[84:100])
		p2 := refmodel.DrawICC(tape.New(hseed, nil), refmodel.ICCOpts{RawHeader: h2, KeepSize: true, MaxTags: 3})
		func() {
			defer func() { recover() }()
			icc.NewProfileReader(bufio.NewReader(bytes.NewReader(p2.Bytes))).ReadProfile()
		}()
		what += " [after an earlier read of another profile with the same profile ID]"
	}
	var p *icc.Profile
	var err error
	var panicked interface{}
	// one run in five goes through the accessor of a meta.Data that has held (and
	// parsed) another profile before: Set...(A); ICCProfile(); Set...(this); ICCProfile()
	viaData := t.Intn(5) == 0
	dseed := t.Draw(1 << 40)
	if mode != 5 {
		viaData = false // the bit sweeps go through the simulated reader, every case
	}
	func() {
		defer func() { panicked = recover() }()
		if viaData {
			md := &meta.Data{}
			a := refmodel.DrawICC(tape.New(dseed, nil), refmodel.ICCOpts{MaxTags: 3})
			md.SetICCProfileData(a.Bytes)
			md.ICCProfile()
			md.SetICCProfileData(data)
			p, err = md.ICCProfile()
			how = "meta.Data.ICCProfile() after the same Data held another profile"
			return
		}
		p, err = icc.NewProfileReader(rd).ReadProfile()
	}()
	st.Probe("through_meta.Data_accessor_with_history", viaData)
	st.Class([...]string{"walking-one", "walking-zero", "version-sweep", "date-extremes", "constant", "random"}[mode])
	deliveryStats(st, src)
	st.Probe("profile_id_read_straddled_delivery", src.ShortReads > 0 && cfg.Policy != simio.Full)
	st.Probe("signature_absent", m.Magic != 0x61637370)
	st.Fault("io_error_inside_the_header", ioFault, src.ErrFired > 0)
	st.Probe("earlier_read_with_the_same_profile_id", earlierRead)
	st.Probe("earlier_read_with_the_same_nonzero_profile_id", earlierRead && m.ID != [16]byte{})
	if src.Delivered >= 128 || m.Magic != 0x61637370 {
		h := uint64(0)
		for _, c := range data[:128] {
			h = tape.Mix(h, uint64(c))
		}
		st.Mark(h)
	}
	render := func() interface{} {
		return map[string]interface{}{"case": what, "header_hex": fmt.Sprintf("%x", data[:128]), "reader": how, "delivery": cfg.String(), "delivery_log": src.LogString(),
			"profile_len": len(data), "model": fmt.Sprintf("%+v", m), "got_err": fmt.Sprint(err)}
	}
	if st.WantSample() {
		st.Sample(render())
	}
	fail := func(field, detail string) *Violation {
		return &Violation{Class: field, Sig: "header:" + field, Detail: detail + " [" + what + "]" + faultNote(cfg, src.ErrFired), Render: render(), OwnHistory: earlierRead || viaData}
	}
	if panicked != nil {
		return fail("panic", fmt.Sprintf("ReadProfile panicked: %v", panicked))
	}
	if m.Magic != 0x61637370 {
		if err == nil {
			return fail("signature-not-rejected", fmt.Sprintf("bytes 36..39 are %q, not 'acsp', yet ReadProfile succeeded", data[36:40]))
		}
		return nil
	}
	if err != nil && src.ErrFired > 0 {
		return nil // the source reported an I/O error: failing is right (succeeding with other values is not, below)
	}
	if err != nil || p == nil {
		return fail("unexpected-error", fmt.Sprintf("header carries 'acsp' and the profile is well-formed but ReadProfile failed: %v", err))
	}
	h := p.Header
	type cmp struct {
		name      string
		got, want interface{}
	}
	cs := []cmp{
		{"ProfileSize", h.ProfileSize, m.Size},
		{"PreferredCMM", uint32(h.PreferredCMM), m.CMM},
		{"Version.Major", h.Version.Major, m.Major},
		{"Version.MinorAndRev", h.Version.MinorAndRev, m.MinorBugfix},
		{"Version.String", h.Version.String(), fmt.Sprintf("%d.%d.%d", m.Major, m.MinorBugfix>>4, m.MinorBugfix&0x0F)},
		{"DeviceClass", uint32(h.DeviceClass), m.Class},
		{"DataColorSpace", uint32(h.DataColorSpace), m.Space},
		{"ProfileConnectionSpace", uint32(h.ProfileConnectionSpace), m.PCS},
		{"PrimaryPlatform", uint32(h.PrimaryPlatform), m.Platform},
		{"Embedded", h.Embedded, m.Flags&1 != 0},
		{"DependsOnEmbeddedData", h.DependsOnEmbeddedData, m.Flags&2 != 0},
		{"DeviceManufacturer", uint32(h.DeviceManufacturer), m.Manufacturer},
		{"DeviceModel", uint32(h.DeviceModel), m.Model},
		{"DeviceAttributes", h.DeviceAttributes, m.Attributes},
		{"RenderingIntent", uint32(h.RenderingIntent), m.Intent},
		{"PCSIlluminant", h.PCSIlluminant, m.Illuminant},
		{"ProfileCreator", uint32(h.ProfileCreator), m.Creator},
		{"ProfileID", h.ProfileID, m.ID},
	}
	for _, c := range cs {
		if c.got != c.want {
			return fail(c.name, fmt.Sprintf("Header.%s = %v, the bytes at the specified offset say %v", c.name, c.got, c.want))
		}
	}
	d := m.Date
	valid := d[0] >= 1 && d[1] >= 1 && d[1] <= 12 && d[2] >= 1 && int(d[2]) <= daysIn(int(d[0]), int(d[1])) && d[3] < 24 && d[4] < 60 && d[5] < 60
	st.Probe("created_at_compared", valid)
	if valid {
		c := h.CreatedAt.In(time.UTC)
		if c.Year() != int(d[0]) || int(c.Month()) != int(d[1]) || c.Day() != int(d[2]) || c.Hour() != int(d[3]) || c.Minute() != int(d[4]) || c.Second() != int(d[5]) || c.Nanosecond() != 0 {
			return fail("CreatedAt", fmt.Sprintf("Header.CreatedAt = %v, the dateTimeNumber at offset 24 says %v", h.CreatedAt, d))
		}
	}
	return nil
}
