// Package props holds, per claimed property, the workload generator, the fault
// and schedule space, and the oracle of engine A (one caller, simulated
// source). Every Run is a pure function of its tape.
package props

import (
	"bytes"
	"fmt"
	"io"
	"os"
	"path/filepath"
	"sort"

	"github.com/mandykoh/prism/meta"
	"github.com/mandykoh/prism/meta/autometa"
	"github.com/mandykoh/prism/meta/jpegmeta"
	"github.com/mandykoh/prism/meta/pngmeta"
	"github.com/mandykoh/prism/meta/webpmeta"

	"verif.local/sim/core"
	"verif.local/sim/refmodel"
	"verif.local/sim/simio"
	"verif.local/sim/tape"
)

type (
	Stats     = core.Stats
	Violation = core.Violation
	Prop      = core.Prop
)

var Registry = map[string]core.Prop{}

func register(p core.Prop) { Registry[p.ID()] = p }

// ---------------------------------------------------------------- loaders

type Loader struct {
	Name   string
	Format string // format name this loader reports, "" for auto
	Fn     func(io.Reader) (*meta.Data, io.Reader, error)
}

var (
	LoaderPNG  = Loader{"pngmeta", string(pngmeta.Format), pngmeta.Load}
	LoaderJPEG = Loader{"jpegmeta", string(jpegmeta.Format), jpegmeta.Load}
	LoaderWebP = Loader{"webpmeta", string(webpmeta.Format), webpmeta.Load}
	LoaderAuto = Loader{"autometa", "", autometa.Load}
	Loaders    = []Loader{LoaderPNG, LoaderJPEG, LoaderWebP, LoaderAuto}
)

func SpecificLoader(format string) Loader {
	switch format {
	case "PNG":
		return LoaderPNG
	case "JPEG":
		return LoaderJPEG
	}
	return LoaderWebP
}

type LoadResult struct {
	MD     *meta.Data
	Stream io.Reader
	Err    error
	Panic  interface{}
}

func SafeLoad(l Loader, r io.Reader) (res LoadResult) {
	defer func() {
		if p := recover(); p != nil {
			res.Panic = p
		}
	}()
	res.MD, res.Stream, res.Err = l.Fn(r)
	return
}

// MDView is the observable content of a load outcome.
type MDView struct {
	OK     bool   `json:"ok"`
	Format string `json:"format,omitempty"`
	W      uint32 `json:"w,omitempty"`
	H      uint32 `json:"h,omitempty"`
	Bits   uint32 `json:"bits,omitempty"`
	ICCLen int    `json:"icc_len"`
	ICCNil bool   `json:"icc_nil"`
	ICCErr string `json:"icc_err,omitempty"`
	Err    string `json:"err,omitempty"`
	icc    []byte
}

// String leaves the profile bytes themselves out.
func (v MDView) String() string {
	return fmt.Sprintf("{OK:%v Format:%s W:%d H:%d Bits:%d ICCLen:%d ICCNil:%v ICCErr:%s Err:%s}", v.OK, v.Format, v.W, v.H, v.Bits, v.ICCLen, v.ICCNil, v.ICCErr, v.Err)
}

func View(res LoadResult) MDView {
	v := MDView{}
	if res.Err != nil {
		v.Err = res.Err.Error()
	}
	if res.Err != nil || res.MD == nil {
		return v
	}
	v.OK = true
	v.Format = string(res.MD.Format)
	v.W, v.H, v.Bits = res.MD.PixelWidth, res.MD.PixelHeight, res.MD.BitsPerComponent
	d, e := res.MD.ICCProfileData()
	v.icc = d
	v.ICCLen = len(d)
	v.ICCNil = d == nil
	if e != nil {
		v.ICCErr = e.Error()
	}
	return v
}

// SameOutcome compares everything C08/C19 regard as the outcome; error texts are
// not compared, only error-ness.
func SameOutcome(a, b MDView) (bool, string) {
	switch {
	case a.OK != b.OK:
		return false, "outcome-differs"
	case !a.OK:
		return true, ""
	case a.Format != b.Format || a.W != b.W || a.H != b.H || a.Bits != b.Bits:
		return false, "metadata-differs"
	case (a.ICCErr != "") != (b.ICCErr != ""):
		return false, "icc-error-differs"
	case a.ICCNil != b.ICCNil || !bytes.Equal(a.icc, b.icc):
		return false, "icc-bytes-differ"
	}
	return true, ""
}

// ---------------------------------------------------------------- delivery

var fixedSizes = []int{1, 2, 3, 7, 8, 4095, 4096, 4097}
var randomMax = []int{2, 16, 300, 5000, 70000}

// DrawDelivery draws a delivery configuration (no faults). fields may be nil.
func DrawDelivery(t *tape.Tape, fields []refmodel.Field, zeroOK bool) simio.Config {
	c := simio.Config{TruncAt: -1, ErrAt: -1}
	switch t.Pick(3, 3, 2, 1, 2) {
	case 0:
		c.Policy = simio.Full
	case 1:
		c.Policy = simio.Fixed
		c.K = fixedSizes[t.Intn(len(fixedSizes))]
	case 2:
		c.Policy = simio.Random
		c.K = randomMax[t.Intn(len(randomMax))]
	case 3:
		c.Policy = simio.Bursty
	case 4:
		if len(fields) == 0 {
			c.Policy = simio.Random
			c.K = 16
			break
		}
		c.Policy = simio.Boundary
		r := t.Sub()
		n := 1 + r.Intn(8)
		for i := 0; i < n; i++ {
			f := fields[r.Intn(len(fields))]
			if f.Width >= 2 {
				c.Marks = append(c.Marks, int64(f.Off+1+r.Intn(f.Width-1)))
			} else {
				c.Marks = append(c.Marks, int64(f.Off))
			}
		}
		sort.Slice(c.Marks, func(i, j int) bool { return c.Marks[i] < c.Marks[j] })
	}
	c.EOFWithData = t.Bool()
	if zeroOK {
		c.ZeroPermille = [...]int{0, 0, 50, 250}[t.Intn(4)]
	} else {
		t.Intn(4)
	}
	c.Seed = t.Draw(1 << 32)
	return c
}

// FixedDelivery is delivery number i of the always-tried list: FULL, then the
// FIXED sizes.
func FixedDelivery(i int) simio.Config {
	c := simio.Config{TruncAt: -1, ErrAt: -1}
	if i > 0 {
		c.Policy = simio.Fixed
		c.K = fixedSizes[(i-1)%len(fixedSizes)]
	}
	return c
}

func DrawConsumer(t *tape.Tape) simio.Consumer {
	c := simio.Consumer{Seed: t.Draw(1 << 32)}
	switch t.Pick(3, 2, 2, 1, 2) {
	case 0:
		c.Policy = simio.ConsReadAll
	case 1:
		c.Policy = simio.ConsFixed
		c.K = [...]int{1, 7, 512, 4096, 65536}[t.Intn(5)]
	case 2:
		c.Policy = simio.ConsRandom
		c.K = [...]int{3, 100, 5000}[t.Intn(3)]
	case 3:
		c.Policy = simio.ConsBufio
		c.K = [...]int{16, 100, 4096}[t.Intn(3)]
	case 4:
		c.Policy = simio.ConsCopy
	}
	return c
}

// deliveryStats records fault kinds of a finished source.
func deliveryStats(st *Stats, s *simio.Source) {
	c := s.Cfg
	st.Fault("short_read", c.Policy != simio.Full || c.ErrAt >= 0, s.ShortReads > 0)
	st.Fault("zero_read", c.ZeroPermille > 0, s.ZeroReads > 0)
	st.Fault("eof_with_data", c.EOFWithData, s.EOFWithDataFired > 0)
	st.Fault("truncation", c.TruncAt >= 0, s.TruncFired())
	st.Fault("io_error_sticky", c.ErrAt >= 0 && c.ErrSticky, c.ErrSticky && s.ErrFired > 0)
	st.Fault("io_error_transient", c.ErrAt >= 0 && !c.ErrSticky, !c.ErrSticky && s.ErrFired > 0)
	st.Steps += int64(s.Calls)
	st.LogHash(s.LogHash)
}

// straddles reports whether some segment boundary of the delivery fell strictly
// inside one of the fields (computed from the source's position log is not
// possible after the fact, so it is derived from policy and marks).
func straddleProbe(st *Stats, s *simio.Source, fields []refmodel.Field, consumed int64) {
	hit := false
	switch s.Cfg.Policy {
	case simio.Fixed:
		k := int64(s.Cfg.K)
		for _, f := range fields {
			if f.Width >= 2 && int64(f.Off) < consumed && (int64(f.Off)/k != int64(f.Off+f.Width-1)/k) {
				hit = true
				break
			}
		}
	case simio.Boundary:
		for _, m := range s.Cfg.Marks {
			if m < consumed {
				hit = true
			}
		}
	case simio.Random, simio.Bursty:
		hit = s.ShortReads > 0
	}
	st.Probe("field_straddles_delivery", hit)
}

// ---------------------------------------------------------------- corpus

type CorpusFile struct {
	Name   string
	Data   []byte
	Fields []refmodel.Field
	Gen    bool
}

var corpus []CorpusFile

// RepoDir is where the tree under test lives (seed files are read from it).
func RepoDir() string {
	if d := os.Getenv("VERIF_REPO"); d != "" {
		return d
	}
	return "/repo"
}

// Corpus returns the seed files of the repository plus a fixed,
// seed-independent set of small generated files.
func Corpus() []CorpusFile {
	if corpus != nil {
		return corpus
	}
	var out []CorpusFile
	for _, dir := range []string{"test-images", "test-profiles"} {
		ents, err := os.ReadDir(filepath.Join(RepoDir(), dir))
		if err != nil {
			continue
		}
		for _, e := range ents {
			if e.IsDir() {
				continue
			}
			b, err := os.ReadFile(filepath.Join(RepoDir(), dir, e.Name()))
			if err != nil {
				continue
			}
			out = append(out, CorpusFile{Name: dir + "/" + e.Name(), Data: b, Fields: refmodel.WalkFields(b)})
		}
	}
	sort.Slice(out, func(i, j int) bool { return out[i].Name < out[j].Name })
	small := []int{1, 40, 300}
	for i := 0; i < 18; i++ {
		t := tape.New(tape.Mix(0xC0FFEE, uint64(i)), nil)
		var f *refmodel.File
		switch i % 6 {
		case 0:
			p := refmodel.DrawPNG(t, 2, nil, false)
			p.BodyLen = 30
			f = refmodel.BuildPNG(p)
		case 1:
			p := refmodel.DrawPNG(t, 1, small, i >= 12)
			p.BodyLen = 30
			f = refmodel.BuildPNG(p)
		case 2:
			p := refmodel.DrawJPEG(t, 2, nil, false, nil)
			p.BodyLen = 30
			f = refmodel.BuildJPEG(p)
		case 3:
			p := refmodel.DrawJPEG(t, 1, small, i >= 12, nil)
			p.BodyLen = 30
			f = refmodel.BuildJPEG(p)
		case 4:
			p := refmodel.DrawWebP(t, i/6, 2, nil, false)
			p.BodyLen = 30
			f = refmodel.BuildWebP(p)
		case 5:
			p := refmodel.DrawWebP(t, 2, 1, small, i >= 12)
			p.BodyLen = 30
			f = refmodel.BuildWebP(p)
		}
		b := f.Bytes()
		if len(b) > 6000 {
			continue
		}
		out = append(out, CorpusFile{Name: fmt.Sprintf("gen%02d:%s", i, f.Truth.Format), Data: b, Fields: f.Truth.Fields, Gen: true})
	}
	corpus = out
	return out
}

var iccCorpus []CorpusFile

// ICCCorpus is a fixed set of generated files that all carry an ICC profile of
// 300 to 5000 bytes (PNG, single- and multi-chunk JPEG, WebP): the operands of
// C11's loader operations, where state shared between loads would hide.
func ICCCorpus() []CorpusFile {
	if iccCorpus != nil {
		return iccCorpus
	}
	var out []CorpusFile
	for i := 0; i < 12; i++ {
		t := tape.New(tape.Mix(0x1CC, uint64(i)), nil)
		size := []int{[]int{300, 3000, 5000, 1500}[i%4]}
		var f *refmodel.File
		switch i % 3 {
		case 0:
			p := refmodel.DrawPNG(t, 1, size, false)
			p.BodyLen = 20
			f = refmodel.BuildPNG(p)
		case 1:
			p := refmodel.DrawJPEG(t, 1, size, false, nil)
			p.BodyLen = 20
			f = refmodel.BuildJPEG(p)
		default:
			p := refmodel.DrawWebP(t, 2, 1, size, false)
			p.BodyLen = 20
			f = refmodel.BuildWebP(p)
		}
		out = append(out, CorpusFile{Name: fmt.Sprintf("icc%02d:%s", i, f.Truth.Format), Data: f.Bytes(), Fields: f.Truth.Fields, Gen: true})
	}
	// two PNGs whose profile inflates to more than 64 KiB (size thresholds of
	// pooled or block-wise buffers)
	for i, n := range []int{70000, 100000} {
		t := tape.New(tape.Mix(0xB16, uint64(i)), nil)
		p := refmodel.DrawPNG(t, 1, []int{n}, false)
		for len(p.ICC) < 65537 {
			p = refmodel.DrawPNG(t, 1, []int{n}, false)
		}
		p.BodyLen = 20
		f := refmodel.BuildPNG(p)
		out = append(out, CorpusFile{Name: fmt.Sprintf("iccbig%02d:%s", i, f.Truth.Format), Data: f.Bytes(), Fields: f.Truth.Fields, Gen: true})
	}
	// six files whose embedded profile is damaged (the loaders' failure paths are
	// part of what concurrent callers share)
	for i := 0; i < 6; i++ {
		t := tape.New(tape.Mix(0xDA3A6ED, uint64(i)), nil)
		var f *refmodel.File
		switch i % 3 {
		case 0:
			p := refmodel.DrawPNG(t, 1, []int{300}, false)
			p.Damage, p.DamageArg = [...]string{"zlib-header", "cutstream"}[i/3], uint32(i)
			p.BodyLen = 20
			f = refmodel.BuildPNG(p)
		case 1:
			for {
				p := refmodel.DrawJPEG(t, 1, []int{1500}, true, nil)
				if p.Damage != "" {
					p.BodyLen = 20
					f = refmodel.BuildJPEG(p)
					break
				}
			}
		default:
			for {
				p := refmodel.DrawWebP(t, 2, 1, []int{1500}, true)
				if p.Damage != "" {
					p.BodyLen = 20
					f = refmodel.BuildWebP(p)
					break
				}
			}
		}
		out = append(out, CorpusFile{Name: fmt.Sprintf("iccdamaged%02d:%s", i, f.Truth.Format), Data: f.Bytes(), Fields: f.Truth.Fields, Gen: true})
	}
	iccCorpus = out
	return out
}

func hex(b []byte, max int) string {
	if len(b) > max {
		return fmt.Sprintf("%x…(%d bytes)", b[:max], len(b))
	}
	return fmt.Sprintf("%x", b)
}

func trunc(s string, n int) string {
	if len(s) > n {
		return s[:n] + "…"
	}
	return s
}
