package props

import (
	"bytes"
	"strings"

	"errors"
	"fmt"
	"verif.local/sim/refmodel"

	"verif.local/sim/simio"
	"verif.local/sim/tape"
)

// C19 — auto-detection behaves exactly like the matching format-specific
// loader.
type c19 struct{}

func init() { register(c19{}) }

func (c19) ID() string    { return "C19" }
func (c19) Level() string { return "exploration" }
func (c19) Rule() string {
	return "workload: every input class (generated valid files of the three formats with/without/with damaged ICC, byte-damaged files, corpus files, random bytes, signature + junk up to beyond one 4096-byte buffer, polyglots: signature of one format + another format's file, a file cut at a structure boundary followed by another file, the empty input), optionally truncated, served under a drawn delivery schedule (each failed candidate's replay stream re-segments the data for the next). Reference model: pngmeta.Load, jpegmeta.Load, webpmeta.Load in that order, each on its own FULL-delivery source over the complete bytes; the first that succeeds wins. Oracle: autometa.Load returns the model's metadata (format, dimensions, depth, ICC bytes or ICC error-ness) or (nil, error) when the model found none, and in all cases a stream that replays the complete input; runs with an injected sticky I/O error compare with the specific loaders under the same fault. Non-trivial: autometa consumed >= 1 byte and at least two candidates ran or the input is not plainly valid; distinct = hash(input, delivery log)."
}
func (c19) Exhaustive(string) string { return "" }
func (c19) Runs(tier string) int64 {
	if tier == "thorough" {
		return 8000000
	}
	return 200000
}
func (c19) Prefix(string, int64) []uint64 { return nil }

var c19weights = InputWeights{Corpus: 2, Valid: 5, ICCDamaged: 2, Damaged: 4, Random: 1, SigJunk: 3, Polyglot: 4, Empty: 1, ShortSOF: 2, Soup: 4}

func (c19) Run(t *tape.Tape, st *Stats) *Violation {
	st.Evals++
	sizes := []int{1, 300, 4000, 5000, 70000}
	if t.Chance(1, 150) {
		sizes = []int{1<<20 + 4096, 2<<20 + 1} // metadata that completes beyond a megabyte
	}
	in := DrawInput(t, c19weights, sizes)
	data := in.Data
	cutNote := ""
	if t.Chance(1, 5) && len(data) > 0 {
		n := t.Intn(len(data))
		if len(in.Fields) > 0 && t.Bool() {
			f := in.Fields[t.Intn(len(in.Fields))]
			if f.Off+f.Width <= len(data) {
				n = f.Off + t.Intn(f.Width+1)
			}
		}
		data = data[:n]
		cutNote = fmt.Sprintf(" cut at %d", n)
	}
	cfg := DrawDelivery(t, in.Fields, true)
	ioErr := t.Chance(1, 8)
	if ioErr {
		cfg.ErrAt = int64(t.Intn(len(data) + 1))
		cfg.ErrSticky = true
		cfg.ErrWithData = t.Bool()
		cfg.ErrID = 7
	}
	cons := DrawConsumer(t)

	// reference model: the three specific loaders in order, each on its own source
	// over the complete bytes; in runs with a (sticky, position-determined) I/O
	// error each on its own source with the same fault
	var model MDView
	winner := "none"
	tried := 0
	mcfg := simio.Config{TruncAt: -1, ErrAt: -1}
	if ioErr {
		mcfg.ErrAt, mcfg.ErrSticky, mcfg.ErrWithData, mcfg.ErrID = cfg.ErrAt, true, cfg.ErrWithData, cfg.ErrID
	}
	for _, l := range Loaders[:3] {
		tried++
		r := SafeLoad(l, simio.NewSource(simio.Bytes(data), mcfg))
		if r.Panic != nil {
			return &Violation{Class: "panic", Sig: l.Name + ":panic", Detail: fmt.Sprintf("%s panicked: %v", l.Name, r.Panic)}
		}
		if r.Err == nil {
			model = View(r)
			winner = l.Name
			break
		}
	}
	// two-step history: in a quarter of the runs autometa loads another file
	// first, in the same run - the same bytes again, an unrelated file, or (when
	// the generator vouches for an uncompressed single-block profile of more than
	// 160 bytes) the same file with one byte changed inside the profile beyond its
	// 128-byte header. What autometa returns for this file must not depend on that.
	earlier := ""
	hk, hseed := t.Intn(12), t.Draw(1<<40)
	if hk < 3 {
		other := data
		earlier = "the same bytes"
		hr := tape.NewRand(hseed)
		if hk == 1 {
			other = GenValid(tape.New(hseed, nil), false, []int{300, 3000}).Bytes()
			earlier = "an unrelated valid file"
		} else if hk == 2 && in.Truth != nil && in.Truth.ICCState == refmodel.ICCPresent && (in.Truth.Format == "WebP" || (in.Truth.Format == "JPEG" && in.Truth.ICCChunks == 1)) {
			for _, f := range in.Fields {
				if f.Kind == "data" && strings.Contains(f.Name, "ICC") && f.Width > 160 && f.Off+f.Width <= len(data) {
					other = append([]byte{}, data...)
					off := f.Off + 128 + hr.Intn(f.Width-128)
					other[off] ^= byte(1 + hr.Intn(255))
					earlier = fmt.Sprintf("the same file with byte %d (inside the profile, beyond its header) changed", off)
					break
				}
			}
		}
		func() {
			defer func() { recover() }()
			if md, _, err := LoaderAuto.Fn(bytes.NewReader(other)); err == nil && md != nil {
				md.ICCProfileData()
			}
		}()
	}
	mid := DrawMidFile(t)
	src := simio.NewSource(simio.Bytes(data), cfg)
	rd, ss := mid.Wrap(src)
	res := SafeLoad(LoaderAuto, rd)
	during := src.Delivered
	var got simio.Consumed
	if res.Panic == nil && res.Stream != nil {
		got = cons.Consume(res.Stream, data)
	}
	v := View(res)
	st.Class(in.Class)
	deliveryStats(st, src)
	mid.Stats(st, ss)
	st.Probe("earlier_autometa_load_in_the_same_run", earlier != "")
	st.Probe("earlier_load_of_a_sibling_file(same profile header, other tag data)", strings.HasPrefix(earlier, "the same file with"))
	st.Probe("model_winner:"+winner, true)
	st.Probe("loader_chain_depth>=2", tried >= 2)
	st.Probe("first_candidate_filled_a_buffer_before_failing", winner != "pngmeta" && during >= 4096)
	st.Probe("io_error_run(replay half only)", ioErr)
	if during > 0 && (tried >= 2 || in.Class != "valid") {
		st.Mark(tape.Mix(tape.HashString(in.Desc+cutNote), uint64(len(data)), src.LogHash))
	}
	render := func() interface{} {
		return map[string]interface{}{"input": in.Desc + cutNote, "input_class": in.Class, "input_len": len(data), "stored_faults": in.Faults,
			"delivery": cfg.String() + mid.String(), "delivery_log": src.LogString(), "consumer": cons.String(), "model_winner": winner, "model": model, "autometa": v,
			"replayed": got.N, "replay_err": fmt.Sprint(got.Err), "input_hex": hex(data, 500)}
	}
	if st.WantSample() {
		st.Sample(render())
	}
	fail := func(class, detail string) *Violation {
		return &Violation{Class: class, Sig: "auto:" + class + ":" + winner, Detail: detail + " [" + trunc(in.Desc, 200) + cutNote + " under " + cfg.String() + "]" + earlierNote(earlier), Render: render(), OwnHistory: earlier != ""}
	}
	if res.Panic != nil {
		return fail("panic", fmt.Sprintf("autometa.Load panicked: %v", res.Panic))
	}
	if res.Stream == nil {
		return fail("replay-incomplete", "autometa returned a nil stream")
	}
	if got.Panic != nil {
		return fail("panic", fmt.Sprintf("reading the stream panicked: %v", got.Panic))
	}
	want := data[:src.Pos()]
	if got.Stalled || got.Diff >= 0 || got.N < int64(len(want)) {
		return fail("replay-incomplete", fmt.Sprintf("stream yielded %d bytes (first difference at %d), the source delivered %d", got.N, got.Diff, len(want)))
	}
	if ioErr {
		if src.ErrFired > 0 && !errors.Is(got.Err, src.Err()) {
			return fail("replay-incomplete", fmt.Sprintf("source failed with %v but the stream ended with %v", src.Err(), got.Err))
		}
		// the metadata half is judged against the model under the same fault
	} else if got.Err != nil || src.Pos() < src.End() {
		return fail("replay-incomplete", fmt.Sprintf("stream ended (%v) after %d of %d bytes", got.Err, src.Pos(), src.End()))
	}
	switch {
	case winner == "none" && v.OK:
		return fail("auto-succeeds-model-fails", fmt.Sprintf("no specific loader succeeds on these bytes but autometa returned %+v", v))
	case winner == "none":
		if res.MD != nil {
			return fail("auto-differs", "autometa returned an error together with non-nil metadata")
		}
		return nil
	case !v.OK:
		return fail("auto-fails-model-succeeds", fmt.Sprintf("%s succeeds (%+v) but autometa failed: %s", winner, model, v.Err))
	}
	if ok, class := SameOutcome(model, v); !ok {
		return fail("auto-differs", fmt.Sprintf("%s gives %+v, autometa gives %+v (%s)", winner, model, v, class))
	}
	return nil
}

func earlierNote(e string) string {
	if e == "" {
		return ""
	}
	return " [after an earlier autometa.Load of " + e + "]"
}
