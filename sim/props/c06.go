package props

import (
	"bytes"
	"fmt"

	"verif.local/sim/refmodel"
	"verif.local/sim/simio"
	"verif.local/sim/tape"
)

// C06 — an embedded ICC profile is returned byte-for-byte, or reported absent
// or corrupt.
type c06 struct{}

func init() { register(c06{}) }

func (c06) ID() string    { return "C06" }
func (c06) Level() string { return "exploration" }
func (c06) Rule() string {
	return "workload: generated PNG (iCCP name 1-79 bytes, zlib levels -2..9), JPEG (1-255 APP2 chunks in drawn or enumerated order, interleaved with other segments, before/after SOF) and WebP (VP8X+ICCP, odd/even sizes) files carrying a profile of a drawn size (1 byte .. several MiB, compressible / incompressible / real profile, sizes straddling 4096-byte buffer boundaries and the 65519-byte JPEG chunk limit), or no profile, or a damaged one (storage faults: bit flip in / bad Adler-32 of / truncated deflate stream, missing chunk, inconsistent total, chunk number 0 or > total, total 0, VP8X flag without ICCP chunk, ICCP cut short). All JPEG chunk permutations up to 5 chunks are enumerated. Served by the simulated source under a drawn delivery schedule to the specific loader or autometa. Oracle: present => exactly the embedded bytes; absent => (nil,nil); damaged => basic metadata intact and a non-nil error with nil bytes (for deflate damage the reference inflater decides whether the stream is still valid). Non-trivial: the loader consumed the whole ICC structure; distinct = hash(format, ICC size, chunks, order, damage, delivery log)."
}
func (c06) Exhaustive(tier string) string {
	return "all 153 arrival orders of 1..5 JPEG ICC chunks (each with drawn surroundings)"
}

var c06perms [][]int

func init() {
	var rec func(cur []int, used []bool, n int)
	rec = func(cur []int, used []bool, n int) {
		if len(cur) == n {
			c06perms = append(c06perms, append([]int{}, cur...))
			return
		}
		for i := 0; i < n; i++ {
			if !used[i] {
				used[i] = true
				rec(append(cur, i), used, n)
				used[i] = false
			}
		}
	}
	for n := 1; n <= 5; n++ {
		rec(nil, make([]bool, n), n)
	}
}

func (c06) Runs(tier string) int64 {
	if tier == "thorough" {
		return int64(len(c06perms))*40 + 3000000
	}
	return int64(len(c06perms))*4 + 60000
}
func (c06) Prefix(tier string, i int64) []uint64 {
	rep := int64(4)
	if tier == "thorough" {
		rep = 40
	}
	if i < int64(len(c06perms))*rep {
		return []uint64{0, uint64(i / rep)}
	}
	return []uint64{1}
}

var c06sizes = []int{1, 2, 3, 127, 128, 500, 3000, 4000, 4095, 4096, 4097, 8191, 8192, 8193, 20000, 65518, 65519, 65520, 65521, 70000, 2 * 65519, 2*65519 + 1}
var c06big = []int{300000, 1 << 20, 3<<20 + 17, 255 * 65519}

func (c06) Run(t *tape.Tape, st *Stats) *Violation {
	st.Evals++
	var f *refmodel.File
	enumerated := false
	if t.Draw(2) == 0 {
		enumerated = true
		perm := c06perms[t.Intn(len(c06perms))]
		p := refmodel.DrawJPEG(t, 1, []int{len(perm), 100 * len(perm), 65519*(len(perm)-1) + 7}, false, perm)
		f = refmodel.BuildJPEG(p)
	} else {
		sizes := c06sizes
		if t.Chance(1, 120) {
			sizes = c06big
		}
		withICC := t.Pick(1, 6, 1) // 0 drawn, 1 present (maybe damaged), 2 absent
		damage := t.Chance(1, 3)
		switch t.Intn(3) {
		case 0:
			p := refmodel.DrawPNG(t, withICC, sizes, damage)
			f = refmodel.BuildPNG(p)
			if p.HasICC && p.Damage == "" && (p.Level == 0 || p.Level == -2) && t.Bool() {
				// align the end of the stored payload with a 4096-byte boundary -1/0/+1
				want := (4096 + t.Intn(3) - 1 - f.Truth.ICCPayloadEnd%4096 + 4096) % 4096
				p.ICC = append(p.ICC, make([]byte, want)...)
				f = refmodel.BuildPNG(p)
			}
		case 1:
			p := refmodel.DrawJPEG(t, withICC, sizes, damage, nil)
			f = refmodel.BuildJPEG(p)
		default:
			p := refmodel.DrawWebP(t, 2, withICC, sizes, damage)
			f = refmodel.BuildWebP(p)
			if p.HasICC && p.Damage == "" && t.Bool() {
				want := (4096 + t.Intn(3) - 1 - f.Truth.ICCPayloadEnd%4096 + 4096) % 4096
				p.ICC = append(p.ICC, make([]byte, want)...)
				f = refmodel.BuildWebP(p)
			}
		}
	}
	tr := f.Truth
	data := f.Bytes()
	// multi-step history: in a third of the runs earlier loads of the same run
	// are kept and their profile bytes re-verified after every later load
	// (a result must not change once it has been returned)
	type held struct {
		desc string
		got  []byte
		want []byte
	}
	var history []held
	earlierLoads := false
	if t.Chance(1, 3) {
		earlierLoads = true
		n := 1 + t.Intn(2)
		for i := 0; i < n; i++ {
			var pf *refmodel.File
			dmg := t.Bool() // earlier loads may be of files with damaged profiles: failure paths leave state behind too
			switch t.Intn(3) {
			case 0:
				pf = refmodel.BuildPNG(refmodel.DrawPNG(t, 1, []int{1, 300, 3000, 5000}, dmg))
			case 1:
				pf = refmodel.BuildJPEG(refmodel.DrawJPEG(t, 1, []int{1, 300, 3000, 5000}, dmg, nil))
			default:
				pf = refmodel.BuildWebP(refmodel.DrawWebP(t, 2, 1, []int{1, 300, 3000, 5000}, dmg))
			}
			l := SpecificLoader(pf.Truth.Format)
			if t.Bool() {
				l = LoaderAuto
			}
			r := SafeLoad(l, simio.NewSource(simio.Bytes(pf.Bytes()), simio.Config{TruncAt: -1, ErrAt: -1}))
			if r.Panic == nil && r.Err == nil && r.MD != nil {
				if d, e := r.MD.ICCProfileData(); e == nil && d != nil && pf.Truth.ICCState == refmodel.ICCPresent {
					history = append(history, held{pf.Truth.Desc + " via " + l.Name, d, pf.Truth.ICC})
				}
			}
		}
	}
	loader := SpecificLoader(tr.Format)
	if t.Pick(2, 1) == 1 {
		loader = LoaderAuto
	}
	cfg := DrawDelivery(t, tr.Fields, true)
	ioFault := DrawIOFault(t, &cfg, tr.Fields, tr.NeededEnd)
	if enumerated && ioFault {
		ioFault, cfg.ErrAt = false, -1 // the chunk-order permutations are an enumeration: every order is judged
	}
	src := simio.NewSource(simio.Bytes(data), cfg)
	res := SafeLoad(loader, src)
	v := View(res)
	firedDuringLoad := src.ErrFired
	st.Fault("io_error_before_the_metadata_is_complete", ioFault, firedDuringLoad > 0)
	st.Class(tr.Format + ":icc-" + tr.ICCState.String())
	deliveryStats(st, src)
	straddleProbe(st, src, tr.Fields, src.Delivered)
	st.Fault("stored_icc_damage:"+tr.Damage, tr.ICCState == refmodel.ICCDamaged, tr.ICCState == refmodel.ICCDamaged && src.Delivered >= int64(tr.ICCPayloadOff))
	st.Probe("icc_gt_buffer", len(tr.ICC) > 4096)
	st.Probe("jpeg_icc_multi_chunk", tr.Format == "JPEG" && tr.ICCChunks > 1)
	st.Probe("jpeg_icc_out_of_order", tr.ICCOutOfOrder)
	st.Probe("jpeg_icc_255_chunks", tr.ICCChunks == 255)
	if tr.ICCPayloadOff >= 0 {
		e := tr.ICCPayloadEnd % 4096
		st.Probe("icc_payload_end_at_buffer_boundary(+-1)", e == 0 || e == 1 || e == 4095)
		st.Probe("field_straddles_bufio", tr.ICCPayloadOff/4096 != (tr.ICCPayloadEnd-1)/4096)
	}
	if src.Delivered >= int64(tr.NeededEnd) || (tr.ICCState == refmodel.ICCAbsent && src.Delivered > 0) {
		st.Mark(tape.Mix(tape.HashString(tr.Format+tr.Damage+loader.Name), uint64(len(tr.ICC)), uint64(tr.ICCChunks), uint64(len(data)), src.LogHash))
	}
	render := func() interface{} {
		return map[string]interface{}{"input": tr.Desc, "input_len": len(data), "icc_state": tr.ICCState.String(), "icc_len": len(tr.ICC), "damage": tr.Damage,
			"loader": loader.Name, "delivery": cfg.String(), "delivery_log": src.LogString(), "got": v, "input_hex": hex(data, 300)}
	}
	if st.WantSample() {
		st.Sample(render())
	}
	fail := func(class, detail string) *Violation {
		return &Violation{Class: class, Sig: loader.Name + ":" + tr.Format + ":" + class + ":" + tr.Damage, Detail: detail + " [" + trunc(tr.Desc, 300) + " via " + loader.Name + " under " + cfg.String() + "]" + faultNote(cfg, firedDuringLoad) + earlierLoadsNote(earlierLoads), Render: render(), OwnHistory: earlierLoads}
	}
	if res.Panic != nil {
		return fail("panic", fmt.Sprintf("Load panicked: %v", res.Panic))
	}
	st.Probe("multi_load_sequence", len(history) > 0)
	for i, h := range history {
		if !bytes.Equal(h.got, h.want) {
			v := fail("bytes-changed-after-later-load", fmt.Sprintf("profile returned by earlier load #%d of this run (%s) was correct when returned but differs after later loads: first difference at %d of %d bytes", i+1, trunc(h.desc, 120), firstDiff(h.got, h.want), len(h.want)))
			v.Sig = "history:bytes-changed-after-later-load"
			return v
		}
	}
	basicOK := v.OK && v.Format == tr.Format && v.W == tr.W && v.H == tr.H && v.Bits == tr.Bits
	if firedDuringLoad > 0 {
		// the source reported an I/O error during Load. The loader may fail, may
		// report the profile as unreadable, or (error absorbed, or late enough)
		// return exactly what it returns without the fault - never anything else:
		// not "no profile" for a file that embeds one, not other bytes, not other
		// dimensions
		switch {
		case !v.OK:
			return nil
		case !basicOK:
			return fail("io-error-swallowed", fmt.Sprintf("the source failed during Load, yet Load succeeded with wrong basic metadata %+v (header says %s %dx%d %d bits)", v, tr.Format, tr.W, tr.H, tr.Bits))
		case v.ICCErr != "":
			return nil
		case tr.ICCState == refmodel.ICCPresent && (v.ICCNil || !bytes.Equal(v.icc, tr.ICC)):
			return fail("io-error-swallowed", fmt.Sprintf("the source failed during Load, yet Load succeeded and ICCProfileData returned %d bytes (nil=%v) without error; embedded are %d bytes", v.ICCLen, v.ICCNil, len(tr.ICC)))
		case tr.ICCState == refmodel.ICCAbsent && !v.ICCNil:
			return fail("io-error-swallowed", fmt.Sprintf("the source failed during Load, yet ICCProfileData returned %d bytes for a file without profile", v.ICCLen))
		case tr.ICCState == refmodel.ICCDamaged:
			return fail("damage-not-reported", fmt.Sprintf("profile damaged (%s) but ICCProfileData returned %d bytes (nil=%v) without error", tr.Damage, v.ICCLen, v.ICCNil))
		}
		return nil
	}
	switch tr.ICCState {
	case refmodel.ICCPresent:
		if !v.OK {
			return fail("spurious-error", fmt.Sprintf("Load failed (%s) on a file with a valid %d-byte profile", v.Err, len(tr.ICC)))
		}
		if v.ICCErr != "" {
			return fail("spurious-error", fmt.Sprintf("ICCProfileData reports %q for a valid %d-byte profile", v.ICCErr, len(tr.ICC)))
		}
		if !bytes.Equal(v.icc, tr.ICC) || v.ICCNil {
			return fail("bytes-differ", fmt.Sprintf("ICCProfileData returned %d bytes (nil=%v), embedded are %d bytes; first difference at %d", v.ICCLen, v.ICCNil, len(tr.ICC), firstDiff(v.icc, tr.ICC)))
		}
	case refmodel.ICCAbsent:
		if !v.OK {
			return fail("spurious-error", fmt.Sprintf("Load failed (%s) on a valid file without profile", v.Err))
		}
		if !v.ICCNil || v.ICCErr != "" {
			return fail("absent-reported-present", fmt.Sprintf("no profile embedded but ICCProfileData returned %d bytes, err=%q", v.ICCLen, v.ICCErr))
		}
	case refmodel.ICCDamaged:
		if !basicOK {
			return fail("damage-loses-basic-metadata", fmt.Sprintf("profile damaged (%s) and basic metadata lost or wrong: %+v, header says %dx%d %d bits", tr.Damage, v, tr.W, tr.H, tr.Bits))
		}
		if v.ICCErr == "" || !v.ICCNil {
			return fail("damage-not-reported", fmt.Sprintf("profile damaged (%s) but ICCProfileData returned %d bytes (nil=%v) and err=%q", tr.Damage, v.ICCLen, v.ICCNil, v.ICCErr))
		}
	}
	if tr.ICCState != refmodel.ICCDamaged && !basicOK {
		return fail("basic-metadata-wrong", fmt.Sprintf("got %+v, header says %s %dx%d %d bits", v, tr.Format, tr.W, tr.H, tr.Bits))
	}
	return nil
}

func firstDiff(a, b []byte) int {
	n := len(a)
	if len(b) < n {
		n = len(b)
	}
	for i := 0; i < n; i++ {
		if a[i] != b[i] {
			return i
		}
	}
	return n
}

func earlierLoadsNote(on bool) string {
	if on {
		return " [after earlier loads in the same run]"
	}
	return ""
}
