package props

import (
	"errors"
	"fmt"
	"reflect"

	"verif.local/sim/simio"
	"verif.local/sim/tape"
)

// C07 — the returned stream always replays the complete original input.
type c07 struct{}

func init() { register(c07{}) }

func (c07) ID() string    { return "C07" }
func (c07) Level() string { return "fault_enumeration" }
func (c07) Rule() string {
	return "enumerated part: every corpus file (repository seed files + 18 fixed generated files) of at most the tier's size limit x 4 loaders x every truncation point and every sticky-I/O-error position (error alone / error together with data; in thorough also every transient-error position) in [0,len], larger files at every structure boundary -1/0/+1, each under a drawn delivery and consumer policy; seeded part: drawn (input class, loader, fault, delivery, consumer). A run is non-trivial when the loader consumed >= 1 byte and, if a fault was configured, the fault fired inside what was consumed or replayed; distinct = hash(input, loader, fault kind+offset, delivery-log hash, consumer)."
}
func (c07) Exhaustive(tier string) string {
	return "truncation points and sticky-error positions of the small corpus files x 4 loaders (the enumerated part); the seeded part is sampled"
}

type c07enum struct {
	file, loader, kind int
	off                int
}

var c07cache = map[string][]c07enum{}

func c07limit(tier string) int {
	if tier == "thorough" {
		return 8192
	}
	return 1400
}

func c07enumeration(tier string) []c07enum {
	if e, ok := c07cache[tier]; ok {
		return e
	}
	var out []c07enum
	lim := c07limit(tier)
	for fi, f := range Corpus() {
		var offs []int
		if len(f.Data) <= lim {
			for o := 0; o <= len(f.Data); o++ {
				offs = append(offs, o)
			}
		} else {
			seen := map[int]bool{}
			add := func(o int) {
				if o >= 0 && o <= len(f.Data) && !seen[o] {
					seen[o] = true
					offs = append(offs, o)
				}
			}
			for _, fl := range f.Fields {
				for d := -1; d <= 1; d++ {
					add(fl.Off + d)
					add(fl.Off + fl.Width + d)
				}
			}
			for _, o := range []int{0, 1, 4095, 4096, 4097, 8192, len(f.Data) - 1, len(f.Data)} {
				add(o)
			}
			if tier != "thorough" && len(offs) > 120 {
				offs = offs[:120]
			}
		}
		kinds := 3
		if tier == "thorough" && len(f.Data) <= lim {
			kinds = 4 // transient errors too
		}
		for li := range Loaders {
			for kind := 1; kind <= kinds; kind++ {
				for _, o := range offs {
					out = append(out, c07enum{fi, li, kind, o})
				}
			}
		}
	}
	c07cache[tier] = out
	return out
}

func (c07) Runs(tier string) int64 {
	n := int64(len(c07enumeration(tier)))
	if tier == "thorough" {
		return n + 12000000
	}
	return n + 40000
}

func (c07) Prefix(tier string, i int64) []uint64 {
	e := c07enumeration(tier)
	if i >= int64(len(e)) {
		return []uint64{1}
	}
	x := e[i]
	return []uint64{0, uint64(x.file), uint64(x.loader), uint64(x.kind), uint64(x.off)}
}

var c07weights = InputWeights{Corpus: 2, Valid: 4, ICCDamaged: 2, Damaged: 4, Random: 1, SigJunk: 2, Polyglot: 2, Empty: 1, ShortSOF: 1, Soup: 4}

func (c07) Run(t *tape.Tape, st *Stats) *Violation {
	var in Input
	var loader Loader
	cfgFault := 0 // 0 none, 1 truncation, 2 sticky error alone, 3 sticky error with data, 4 transient error, 5 source panics once
	faultOff := 0
	if t.Draw(2) == 0 {
		// enumerated layout: file, loader, fault kind, offset
		c := Corpus()
		f := c[t.Intn(len(c))]
		in = Input{Class: "corpus", Desc: f.Name, Data: f.Data, Fields: f.Fields}
		loader = Loaders[t.Intn(len(Loaders))]
		cfgFault = t.Intn(5)
		faultOff = t.Intn(len(in.Data) + 1)
	} else {
		sizes := []int{1, 300, 5000, 70000}
		if t.Chance(1, 150) {
			sizes = []int{1<<20 + 4096, 2<<20 + 1} // more than a megabyte consumed before the loader is done
		}
		in = DrawInput(t, c07weights, sizes)
		loader = Loaders[t.Intn(len(Loaders))]
		cfgFault = t.Pick(3, 2, 2, 2, 2, 1)
		switch t.Pick(2, 1, 1) {
		case 0:
			faultOff = t.Intn(len(in.Data) + 1)
		case 1:
			if len(in.Fields) > 0 {
				f := in.Fields[t.Intn(len(in.Fields))]
				faultOff = f.Off + t.Intn(f.Width+1)
			}
		case 2:
			faultOff = [...]int{0, 1, 4095, 4096, 4097, 8192}[t.Intn(6)]
		}
		if faultOff > len(in.Data) {
			faultOff = len(in.Data)
		}
	}
	cfg := DrawDelivery(t, in.Fields, true)
	switch cfgFault {
	case 1:
		cfg.TruncAt = int64(faultOff)
	case 5:
		// the source panics once at this offset (with an error, a string or a
		// struct as panic value) and behaves afterwards: no loader may let the
		// panic out, and the stream must still replay everything
		cfg.PanicArmed, cfg.PanicAt, cfg.PanicKind = true, int64(faultOff), t.Intn(3)
	case 2, 3, 4:
		cfg.ErrAt = int64(faultOff)
		cfg.ErrSticky = cfgFault != 4
		cfg.ErrWithData = cfgFault == 3 || (cfgFault == 4 && t.Bool())
		cfg.ErrID = 1 + faultOff
	}
	cons := DrawConsumer(t)
	mid := DrawMidFile(t)

	src := simio.NewSource(simio.Bytes(in.Data), cfg)
	rd, ss := mid.Wrap(src)
	res := SafeLoad(loader, rd)
	duringLoad := src.Delivered
	errDuringLoad := src.ErrFired
	panicDuringLoad := src.PanicFired
	// multi-step history: in a third of the runs another Load (any loader, any
	// input) happens between this Load and the reading of its stream, and the
	// other stream is read first in half of those: a returned stream must not
	// depend on what the package does afterwards
	interposed := ""
	var other *Violation
	var late func()
	if t.Chance(1, 3) {
		in2 := DrawInput(t, c07weights, []int{1, 300, 5000})
		l2 := Loaders[t.Intn(len(Loaders))]
		src2 := simio.NewSource(simio.Bytes(in2.Data), simio.Config{TruncAt: -1, ErrAt: -1})
		res2 := SafeLoad(l2, src2)
		interposed = fmt.Sprintf("%s on %s (%d bytes)", l2.Name, trunc(in2.Desc, 80), len(in2.Data))
		check2 := func() {
			if res2.Panic != nil || res2.Stream == nil {
				return // judged when that input is the main one
			}
			g2 := simio.Consumer{Policy: simio.ConsReadAll}.Consume(res2.Stream, in2.Data)
			if g2.Diff >= 0 || g2.N < int64(len(in2.Data)) || g2.Err != nil {
				other = &Violation{Class: "lost-bytes", Sig: "sequence:second-stream", Detail: fmt.Sprintf("stream of the interposed load (%s) yielded %d of %d bytes, first difference at %d, err %v", interposed, g2.N, len(in2.Data), g2.Diff, g2.Err)}
			}
		}
		if t.Bool() {
			check2()
		} else {
			late = check2
		}
	} else {
		t.Intn(1)
	}
	// chained loads: in a quarter of the runs the returned stream is handed to one
	// or two further loaders (what autometa does internally, and what a caller may
	// do by hand); the last stream must still replay everything
	chain := ""
	if t.Chance(1, 4) && res.Panic == nil && res.Stream != nil {
		depth := 1 + t.Intn(2)
		for d := 0; d < depth; d++ {
			l := Loaders[t.Intn(len(Loaders))]
			r := SafeLoad(l, res.Stream)
			chain += " -> " + l.Name
			if r.Panic != nil || r.Stream == nil {
				res = r
				break
			}
			res.Stream = r.Stream
		}
	} else {
		t.Intn(2)
	}
	var got simio.Consumed
	if res.Panic == nil && res.Stream != nil {
		got = cons.Consume(res.Stream, in.Data)
	}
	if late != nil {
		late()
	}
	st.Evals++
	st.Class(in.Class)
	deliveryStats(st, src)
	mid.Stats(st, ss)
	straddleProbe(st, src, in.Fields, duringLoad)
	st.Probe("error_during_load", errDuringLoad > 0)
	st.Probe("error_during_replay", src.ErrFired > errDuringLoad)
	st.Probe("load_succeeded", res.Err == nil && res.MD != nil)
	st.Probe("load_failed_midway", res.Err != nil && duringLoad > 0)
	st.Fault("source_panics_once", cfg.PanicArmed, src.PanicFired > 0)
	faultFired := cfgFault == 0 || src.ErrFired > 0 || src.TruncFired() || src.PanicFired > 0
	if duringLoad > 0 && faultFired {
		st.Mark(tape.Mix(tape.HashString(in.Desc), uint64(len(in.Data)), tape.HashString(loader.Name), uint64(cfgFault), uint64(faultOff), src.LogHash, uint64(cons.Policy), uint64(cons.K)))
	}
	render := func() interface{} {
		return map[string]interface{}{
			"input": in.Desc, "input_class": in.Class, "input_len": len(in.Data), "stored_faults": in.Faults, "interposed_load": interposed, "chained_through": chain,
			"loader": loader.Name, "delivery": cfg.String() + mid.String(), "consumer": cons.String(),
			"delivered_during_load": duringLoad, "delivered_total": src.Delivered,
			"load_error": fmt.Sprint(res.Err), "replayed_len": got.N, "replay_error": fmt.Sprint(got.Err),
			"delivery_log": src.LogString(), "input_hex": hex(in.Data, 512),
		}
	}
	if st.WantSample() {
		st.Sample(render())
	}
	st.Probe("interposed_load_between_Load_and_reading", interposed != "")
	st.Probe("chained_loads", chain != "")
	fail := func(class, detail string) *Violation {
		if interposed != "" {
			detail += " [after an interposed load: " + interposed + "]"
		}
		if chain != "" {
			detail += " [stream chained through" + chain + "]"
		}
		return &Violation{Class: class, Sig: loader.Name + ":" + class, Detail: detail, Render: render()}
	}
	if other != nil {
		other.Render = render()
		return other
	}
	if res.Panic != nil && src.PanicFired > 0 && reflect.DeepEqual(res.Panic, src.PanicValue) {
		// the source's own panic came through Load unchanged: the reader
		// misbehaved, the loader added nothing (containing it, as the parsers'
		// recover happens to do, is fine too). A *different* panic value is the
		// loader's own.
		st.Probe("source_panic_propagated_unchanged_by_Load", true)
		return nil
	}
	if res.Panic != nil {
		return fail("panic", fmt.Sprintf("Load panicked: %v", res.Panic))
	}
	if res.Stream == nil {
		return fail("nil-stream", "Load returned a nil stream")
	}
	if got.Panic != nil && src.PanicFired > panicDuringLoad {
		// the source itself panicked while the caller was reading the stream:
		// that is the caller's reader misbehaving, not the loader; nothing more
		// can be said about this run
		st.Probe("source_panicked_while_stream_was_read", true)
		return nil
	}
	if got.Panic != nil {
		return fail("panic", fmt.Sprintf("reading the returned stream panicked: %v", got.Panic))
	}
	if got.Stalled {
		return fail("stream-stalls", "the returned stream answered (0,nil) 10000 times in a row")
	}
	want := in.Data[:src.Pos()]
	if got.Diff >= 0 {
		return fail(got.Classify(want), fmt.Sprintf("stream yielded %d bytes, the source delivered %d (first %d during Load); first difference at %d (stream has % x there)",
			got.N, len(want), duringLoad, got.Diff, got.Window))
	}
	if got.N < int64(len(want)) {
		return fail("lost-bytes", fmt.Sprintf("stream yielded only %d of the %d bytes the source delivered (first %d during Load)", got.N, len(want), duringLoad))
	}
	stickyDue := cfg.ErrAt >= 0 && cfg.ErrSticky && cfg.ErrAt <= src.End()
	if got.Err == nil {
		if stickyDue {
			return fail("error-swallowed", fmt.Sprintf("source fails permanently at offset %d but the stream ended cleanly after %d bytes", cfg.ErrAt, got.N))
		}
		if src.Pos() < src.End() {
			return fail("lost-bytes", fmt.Sprintf("stream ended cleanly after %d of %d bytes", src.Pos(), src.End()))
		}
	} else {
		if !errors.Is(got.Err, src.Err()) { // a wrapped error still surfaces it
			return fail("wrong-error", fmt.Sprintf("stream ended with %q, the source's error is %q (fired %d times)", got.Err, src.Err(), src.ErrFired))
		}
		if src.ErrFired == 0 {
			return fail("wrong-error", "stream surfaced the injected error although the source never returned it")
		}
	}
	return nil
}
