package props

import (
	"bufio"
	"fmt"
	"os"
	"runtime"
	"runtime/debug"

	"github.com/mandykoh/prism/meta/icc"

	"verif.local/sim/core"
	"verif.local/sim/refmodel"
	"verif.local/sim/simio"
	"verif.local/sim/tape"
	"verif.local/simrt"
)

// C09 — hostile input cannot crash the caller, hang, or balloon memory.
type c09 struct{}

func init() { register(c09{}) }

func (c09) ID() string    { return "C09" }
func (c09) Level() string { return "exploration" }
func (c09) Rule() string {
	return "fault-driven: valid generated or seed files (PNG/JPEG/WebP/ICC, ICC profiles also embedded in images) receive 1-3 stored-byte faults (length/count/offset/dimension fields overwritten with boundary values incl. sums that wrap 2^32, bit flips, type overwrites, stored truncation, self-splice), plus amplification workloads (mluc records sharing one string, tags sharing one data area), random bytes behind valid signatures and truncations; the enumerated part walks every length/count/offset/dimension field of every corpus file x every boundary value. Each case runs in a worker process that executes one case at a time: Load (specific + auto), ICCProfileData, ICCProfile, Description / ReadProfile + Description. Invariants: no panic escapes, the meta packages (built from a copy with a step counter before every statement) execute at most 200000 + 64*len(input) statements - the deterministic stand-in for 'time grows with the input size, not with numbers written in it', aborting the run at four times that -, TotalAlloc delta <= 4 MiB + 32*len(input) (4200*len for PNG carrying iCCP: deflate expands at most 1032:1), under FULL delivery at most 100+2*len(input) Read calls, watchdog on the whole run. Non-trivial: a stored fault or amplification was applied and the code under test consumed >= 1 byte; distinct = hash(input bytes, calls, delivery log)."
}
func (c09) Exhaustive(tier string) string {
	return "the field x boundary-value matrix over the corpus files (enumerated part); everything else is seeded"
}

type c09enum struct{ file, field, value, loader int }

var c09cache = map[string][]c09enum{}

func c09fields(f CorpusFile) []refmodel.Field {
	var out []refmodel.Field
	for _, fl := range f.Fields {
		switch fl.Kind {
		case "length", "count", "offset", "dim":
			if fl.Off+fl.Width <= len(f.Data) && fl.Width <= 4 {
				out = append(out, fl)
			}
		}
	}
	return out
}

const c09values = 43

func c09enumeration(tier string) []c09enum {
	if e, ok := c09cache[tier]; ok {
		return e
	}
	var out []c09enum
	for fi, f := range Corpus() {
		fs := c09fields(f)
		if tier != "thorough" && len(fs) > 12 {
			fs = fs[:12]
		}
		for fli := range fs {
			for v := 0; v < c09values; v++ {
				if tier != "thorough" && v%3 != 0 {
					continue
				}
				for l := 0; l < 2; l++ {
					out = append(out, c09enum{fi, fli, v, l})
				}
			}
		}
	}
	c09cache[tier] = out
	return out
}

// ---- pair matrix: two related fields of a small ICC profile damaged together

var c09pairValues = []uint64{0, 1, 2, 8, 12, 16, 0xFF, 0xFFFF, 0x10000, 1<<31 - 1, 1 << 31, 1<<32 - 1, 1<<32 - 12, 1<<32 - 16}

type c09pairBase struct {
	name   string
	data   []byte
	fields []refmodel.Field
}

var c09pairBases []c09pairBase

func c09bases() []c09pairBase {
	if c09pairBases != nil {
		return c09pairBases
	}
	add := func(name string, data []byte, fs []refmodel.Field) {
		var keep []refmodel.Field
		for _, f := range fs {
			if (f.Kind == "length" || f.Kind == "count" || f.Kind == "offset") && f.Width == 4 && f.Off+4 <= len(data) {
				keep = append(keep, f)
			}
		}
		if len(keep) > 12 {
			keep = keep[:12]
		}
		c09pairBases = append(c09pairBases, c09pairBase{name, data, keep})
	}
	m := refmodel.DrawICC(tape.New(0xA11CE, nil), refmodel.ICCOpts{DescKind: 2, MaxTags: 2})
	add("generated mluc profile: "+m.Summary, m.Bytes, m.Fields)
	v := refmodel.DrawICC(tape.New(0xB0B, nil), refmodel.ICCOpts{DescKind: 1, MaxTags: 2})
	add("generated v2 profile: "+v.Summary, v.Bytes, v.Fields)
	fan := refmodel.BuildMLUCFanIn(3, 8)
	add("3-record mluc profile", fan.Bytes, refmodel.WalkFields(fan.Bytes))
	for _, c := range Corpus() {
		if len(c.Data) >= 132 && string(c.Data[36:40]) == "acsp" {
			add(c.Name, c.Data, c.Fields)
		}
	}
	return c09pairBases
}

func c09pairCount() int64 {
	var n int64
	nv := int64(len(c09pairValues) + 2)
	for _, b := range c09bases() {
		k := int64(len(b.fields))
		n += k * (k - 1) / 2 * nv * nv
	}
	return n
}

func (c09) Runs(tier string) int64 {
	n := int64(len(c09enumeration(tier))) + c09pairCount()
	if tier == "thorough" {
		return n + 16000000
	}
	return n + 300000
}
func (c09) Prefix(tier string, i int64) []uint64 {
	e := c09enumeration(tier)
	if i >= int64(len(e)) {
		i -= int64(len(e))
		nv := int64(len(c09pairValues) + 2)
		for bi, b := range c09bases() {
			k := int64(len(b.fields))
			per := k * (k - 1) / 2 * nv * nv
			if i < per {
				pair := i / (nv * nv)
				r := i % (nv * nv)
				return []uint64{2, uint64(bi), uint64(pair), uint64(r / nv), uint64(r % nv)}
			}
			i -= per
		}
		return []uint64{1}
	}
	x := e[i]
	return []uint64{0, uint64(x.file), uint64(x.field), uint64(x.value), uint64(x.loader)}
}

var c09weights = InputWeights{Corpus: 1, Valid: 1, ICCDamaged: 2, Damaged: 10, Random: 1, SigJunk: 2, Polyglot: 1, Empty: 0, ShortSOF: 1, Soup: 6}

func sniffLoader(b []byte) Loader {
	switch {
	case len(b) >= 2 && b[0] == 0xFF && b[1] == 0xD8:
		return LoaderJPEG
	case len(b) >= 4 && string(b[:4]) == "RIFF":
		return LoaderWebP
	}
	return LoaderPNG
}

type c09call struct {
	Name   string `json:"call"`
	Alloc  uint64 `json:"alloc_bytes"`
	Steps  int64  `json:"steps"`
	Panic  string `json:"panic,omitempty"`
	Budget bool   `json:"step_budget_exceeded,omitempty"`
	Note   string `json:"result,omitempty"`
}

// instrumentedMeta: the check script builds C09 against a copy of the tree whose
// meta packages carry a step counter before every statement (VERIF_INSTR_META=1).
var instrumentedMeta = os.Getenv("VERIF_INSTR_META") == "1"

func totalAlloc() uint64 {
	var ms runtime.MemStats
	runtime.ReadMemStats(&ms)
	return ms.TotalAlloc
}

// guarded runs f, recording panics and allocation.
func guarded(name string, calls *[]c09call, f func() string) (ok bool) {
	c := c09call{Name: name}
	before := totalAlloc()
	steps0 := simrt.Steps()
	func() {
		defer func() {
			if p := recover(); p != nil {
				if _, ok := p.(simrt.StepBudgetExceeded); ok {
					c.Budget = true
				} else {
					c.Panic = fmt.Sprint(p)
				}
			}
		}()
		c.Note = trunc(f(), 120)
	}()
	c.Steps = simrt.Steps() - steps0
	c.Alloc = totalAlloc() - before
	*calls = append(*calls, c)
	return c.Panic == ""
}

func (c09) Run(t *tape.Tape, st *Stats) *Violation {
	st.Evals++
	var data []byte
	var fields []refmodel.Field
	desc, class := "", ""
	isICC := false
	faulted := false
	var faults []string
	loaderSel := -1
	pngICCP := false
	mode := t.Draw(3)
	if mode == 2 {
		// pair matrix: two related length / count / offset fields of a small
		// profile overwritten together (a defect may need both, e.g. a record
		// size of zero AND a huge record count)
		bs := c09bases()
		b := bs[t.Intn(len(bs))]
		k := len(b.fields)
		pi := t.Intn(k * (k - 1) / 2)
		nv := len(c09pairValues) + 2
		v1i, v2i := t.Intn(nv), t.Intn(nv)
		fa, fb := 0, 1
		for a, c := 0, 0; a < k; a++ {
			for bb := a + 1; bb < k; bb++ {
				if c == pi {
					fa, fb = a, bb
				}
				c++
			}
		}
		data = append([]byte{}, b.data...)
		fields, desc, class, isICC, faulted = b.fields, b.name, "icc-pair-matrix", true, true
		for _, fv := range [][2]int{{fa, v1i}, {fb, v2i}} {
			f := b.fields[fv[0]]
			cur := refmodel.GetBE(data, f.Off, 4)
			var v uint64
			switch {
			case fv[1] < len(c09pairValues):
				v = c09pairValues[fv[1]]
			case fv[1] == len(c09pairValues):
				v = (cur + 1) & 0xFFFFFFFF
			default:
				v = uint64(len(data) - f.Off)
			}
			refmodel.PutBE(data, f.Off, 4, v)
			faults = append(faults, fmt.Sprintf("set %s@%d = %#x (was %#x)", f.Name, f.Off, v, cur))
		}
	} else if mode == 0 {
		// enumerated matrix: file, field, boundary value, loader
		c := Corpus()
		f := c[t.Intn(len(c))]
		fs := c09fields(f)
		data = append([]byte{}, f.Data...)
		fields, desc, class = f.Fields, f.Name, "matrix"
		fi := t.Intn(len(fs))
		vi := t.Intn(c09values)
		loaderSel = t.Intn(2)
		if len(fs) > 0 {
			fl := fs[fi]
			var cur uint64
			if fl.LE {
				cur = refmodel.GetLE(data, fl.Off, fl.Width)
			} else {
				cur = refmodel.GetBE(data, fl.Off, fl.Width)
			}
			vs := BoundaryValues(cur, int64(len(data)-fl.Off-fl.Width), fl.Width)
			v := vs[vi%len(vs)]
			if fl.LE {
				refmodel.PutLE(data, fl.Off, fl.Width, v)
			} else {
				refmodel.PutBE(data, fl.Off, fl.Width, v)
			}
			faults = append(faults, fmt.Sprintf("set %s@%d = %#x (was %#x)", fl.Name, fl.Off, v, cur))
			faulted = true
		}
		isICC = len(f.Data) >= 40 && string(f.Data[36:40]) == "acsp"
	} else {
		switch t.Pick(8, 3, 3, 2) {
		case 0:
			in := DrawInput(t, c09weights, []int{1, 300, 3000, 5000, 70000})
			data, fields, desc, class, faults = in.Data, in.Fields, in.Desc, in.Class, in.Faults
			faulted = in.Class != "valid" && in.Class != "corpus"
		case 1:
			// ICC profile alone, damaged
			p := refmodel.DrawICC(t, refmodel.ICCOpts{})
			data = append([]byte{}, p.Bytes...)
			fields, desc, class, isICC = p.Fields, p.Summary, "icc-damaged", true
			n := 1 + t.Pick(6, 2, 1)
			for i := 0; i < n; i++ {
				var d string
				data, d = ApplyStoredFault(t, data, fields)
				faults = append(faults, d)
			}
			faulted = true
		case 2:
			// damaged or amplifying profile embedded in an image
			var prof []byte
			if t.Bool() {
				p := refmodel.DrawICC(t, refmodel.ICCOpts{})
				prof = append([]byte{}, p.Bytes...)
				var d string
				prof, d = ApplyStoredFault(t, prof, p.Fields)
				faults = append(faults, "in embedded profile: "+d)
				desc = p.Summary
			} else if t.Bool() {
				nrec := [...]int{2, 40, 300, 1500}[t.Intn(4)]
				sb := [...]int{2, 200, 4000, 30000}[t.Intn(4)]
				p := refmodel.BuildMLUCFanInFill(nrec, sb, t.Intn(4))
				prof, desc = p.Bytes, p.Summary
				faults = append(faults, "amplification: shared mluc string")
			} else {
				p := refmodel.BuildTagFanIn([...]int{2, 40, 300, 1500}[t.Intn(4)], [...]int{200, 4000, 30000}[t.Intn(3)])
				prof, desc = p.Bytes, p.Summary
				faults = append(faults, "amplification: tags sharing one data area")
			}
			var f *refmodel.File
			switch t.Intn(3) {
			case 0:
				pp := refmodel.DrawPNG(t, 1, []int{1}, false)
				pp.ICC = prof
				pp.Damage = ""
				f = refmodel.BuildPNG(pp)
			case 1:
				if len(prof) > 60000 {
					prof = prof[:60000]
				}
				jp := refmodel.DrawJPEG(t, 2, nil, false, nil)
				jp.ICC = prof
				jp.NChunks = 1
				seg := refmodel.JPEGSeg{Marker: 0xE2, Payload: append(append([]byte("ICC_PROFILE\x00"), 1, 1), prof...), Tag: "ICC[1/1]"}
				jp.Segs = append([]refmodel.JPEGSeg{seg}, jp.Segs...)
				f = refmodel.BuildJPEG(jp)
			default:
				wp := refmodel.DrawWebP(t, 2, 1, []int{1}, false)
				wp.ICC = prof
				wp.Damage = ""
				f = refmodel.BuildWebP(wp)
			}
			data, fields, class = f.Bytes(), f.Truth.Fields, "image+hostile-icc"
			desc = f.Truth.Format + " carrying " + desc
			faulted = true
		default:
			var p *refmodel.ICCProfile
			if t.Bool() {
				nrec := [...]int{1, 2, 40, 300, 1500}[t.Intn(5)]
				sb := [...]int{0, 2, 200, 4000, 30000}[t.Intn(5)]
				p = refmodel.BuildMLUCFanInFill(nrec, sb, t.Intn(4))
				faults = append(faults, "amplification: shared mluc string")
			} else {
				nt := [...]int{1, 2, 40, 300, 1500}[t.Intn(5)]
				ab := [...]int{12, 200, 4000, 30000}[t.Intn(4)]
				p = refmodel.BuildTagFanIn(nt, ab)
				faults = append(faults, "amplification: tags sharing one data area")
			}
			data, fields, desc, class, isICC = p.Bytes, p.Fields, p.Summary, "icc-amplification", true
			faulted = true
		}
	}
	pngICCP = len(data) >= 8 && string(data[1:4]) == "PNG" && containsBytes(data, "iCCP")
	cfg := simio.Config{TruncAt: -1, ErrAt: -1}
	full := t.Pick(2, 1) == 0
	if !full {
		cfg = DrawDelivery(t, fields, true)
	}
	if cfg.Policy == simio.Full && cfg.ZeroPermille == 0 {
		cfg.CallLimit = 100 + 2*len(data)
	}
	if loaderSel < 0 {
		loaderSel = t.Intn(2)
	} else {
		t.Intn(2)
	}
	// second half of a matrix / image case: truncation drawn from the tape
	if t.Chance(1, 6) && len(data) > 0 {
		cfg.TruncAt = int64(t.Intn(len(data)))
		faults = append(faults, fmt.Sprintf("truncate@%d", cfg.TruncAt))
		faulted = true
	}

	// an I/O error of the source (once or from then on, alone or with data) in one
	// run of six: error paths must not crash, spin or balloon either
	if DrawIOFault(t, &cfg, fields, len(data)) {
		faults = append(faults, fmt.Sprintf("io-error@%d", cfg.ErrAt))
		faulted = true
	}
	src := simio.NewSource(simio.Bytes(data), cfg)
	var calls []c09call
	// steps: instrumented statements executed by prism's meta packages; the
	// budget that aborts a run is four times the bound that is a violation
	stepBound := int64(200000) + 64*int64(len(data))
	simrt.ResetSteps(4 * stepBound)
	defer simrt.ResetSteps(0)
	if isICC {
		var prof *icc.Profile
		viaBufio := t.Bool()
		guarded("icc.ProfileReader.ReadProfile", &calls, func() string {
			var err error
			if viaBufio {
				prof, err = icc.NewProfileReader(bufio.NewReader(src)).ReadProfile()
			} else {
				prof, err = icc.NewProfileReader(simio.ByteSource{Source: src}).ReadProfile()
			}
			return fmt.Sprintf("profile=%v err=%v", prof != nil, err)
		})
		if prof != nil {
			guarded("icc.Profile.Description", &calls, func() string {
				d, err := prof.Description()
				return fmt.Sprintf("%d chars err=%v", len(d), err)
			})
		}
	} else {
		loader := LoaderAuto
		if loaderSel == 0 {
			loader = sniffLoader(data)
		}
		var res LoadResult
		guarded(loader.Name+".Load", &calls, func() string {
			res.MD, res.Stream, res.Err = loader.Fn(src)
			return fmt.Sprintf("md=%v err=%v", res.MD != nil, res.Err)
		})
		if res.MD != nil {
			guarded("meta.Data.ICCProfileData", &calls, func() string {
				d, err := res.MD.ICCProfileData()
				return fmt.Sprintf("%d bytes err=%v", len(d), err)
			})
			var prof *icc.Profile
			guarded("meta.Data.ICCProfile", &calls, func() string {
				var err error
				prof, err = res.MD.ICCProfile()
				return fmt.Sprintf("profile=%v err=%v", prof != nil, err)
			})
			if prof != nil {
				guarded("icc.Profile.Description", &calls, func() string {
					d, err := prof.Description()
					return fmt.Sprintf("%d chars err=%v", len(d), err)
				})
			}
		}
	}
	st.Class(class)
	deliveryStats(st, src)
	st.Fault("stored_byte_damage_or_amplification", faulted, faulted && src.Delivered > 0)
	st.Probe("metadata_returned_from_damaged_input", faulted && len(calls) > 1)
	st.Probe("description_reached", len(calls) > 0 && calls[len(calls)-1].Name == "icc.Profile.Description")
	if faulted && src.Delivered > 0 {
		h := tape.Mix(uint64(len(data)), uint64(len(calls)), src.LogHash)
		for i := 0; i < len(data); i += 1 + len(data)/64 {
			h = tape.Mix(h, uint64(data[i]))
		}
		st.Mark(tape.Mix(h, tape.HashString(desc), tape.HashString(fmt.Sprint(faults))))
	}
	var total, worst uint64
	worstCall := ""
	var steps, worstSteps int64
	stepCall := ""
	for _, c := range calls {
		total += c.Alloc
		if c.Alloc >= worst {
			worst, worstCall = c.Alloc, c.Name
		}
		steps += c.Steps
		if c.Steps >= worstSteps {
			worstSteps, stepCall = c.Steps, c.Name
		}
	}
	tripped := simrt.Tripped()
	simrt.ResetSteps(0)
	st.CodeSteps += steps
	if instrumentedMeta && steps == 0 && src.Delivered > 64 {
		panic(&core.HarnessError{Msg: "C09 was built with VERIF_INSTR_META=1 but no instrumented step was counted: the meta packages are not instrumented"})
	}
	st.Probe("steps_over_half_bound", steps > stepBound/2)
	if total > 1<<28 {
		debug.FreeOSMemory() // keep a ballooning tree from exhausting the machine across 16 workers
	}
	bound := uint64(4<<20) + 32*uint64(len(data))
	if pngICCP {
		bound = uint64(4<<20) + 4200*uint64(len(data))
	}
	render := func() interface{} {
		return map[string]interface{}{"input": desc, "input_class": class, "input_len": len(data), "faults": faults, "delivery": cfg.String(),
			"delivery_log": src.LogString(), "calls": calls, "steps": steps, "step_bound": stepBound, "alloc_total": total, "alloc_bound": bound, "source_read_calls": src.Calls, "input_hex": hex(data, 600)}
	}
	if st.WantSample() {
		st.Sample(render())
	}
	for _, c := range calls {
		if c.Panic != "" {
			return &Violation{Class: "panic-escaped", Sig: c.Name + ":panic-escaped", Detail: fmt.Sprintf("%s panicked: %s", c.Name, c.Panic), Render: render()}
		}
	}
	if total > bound {
		return &Violation{Class: "alloc-balloon", Sig: worstCall + ":alloc-balloon",
			Detail: fmt.Sprintf("%d bytes allocated for a %d-byte input (bound %d); largest share %d in %s", total, len(data), bound, worst, worstCall), Render: render()}
	}
	if tripped || steps > stepBound {
		return &Violation{Class: "step-budget", Sig: stepCall + ":steps-unbounded",
			Detail: fmt.Sprintf("%d instrumented statements executed for a %d-byte input (bound %d, run aborted at %d: %v); largest share %d in %s - time grows with numbers written in the input", steps, len(data), stepBound, 4*stepBound, tripped, worstSteps, stepCall), Render: render()}
	}
	if src.Storm {
		return &Violation{Class: "read-storm", Sig: calls[0].Name + ":read-storm",
			Detail: fmt.Sprintf("more than %d Read calls on a %d-byte input under FULL delivery", cfg.CallLimit, len(data)), Render: render()}
	}
	return nil
}

func containsBytes(b []byte, s string) bool {
	for i := 0; i+len(s) <= len(b) && i < 1<<20; i++ {
		if string(b[i:i+len(s)]) == s {
			return true
		}
	}
	return false
}
