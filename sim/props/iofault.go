package props

import (
	"fmt"

	"verif.local/sim/refmodel"
	"verif.local/sim/simio"
	"verif.local/sim/tape"
)

// DrawIOFault arms, in one run of six, an I/O error of the simulated source at
// a place chosen to matter: exactly on a structure boundary, inside a
// multi-byte field but before its last byte, or anywhere up to limit. The error
// is returned once (transient: the next call delivers data again) or from then
// on (sticky), alone or together with the bytes that precede it. Three tape
// values, always drawn. It reports whether a fault was armed.
//
// What a loader may do once the source has reported an error during Load is
// narrow: fail, or report the embedded profile as unreadable, or - when the
// error arrived late enough or was absorbed by a buffering layer - return
// exactly what it returns without the fault. It may never succeed with other
// values: a swallowed error that shifts every later field is the defect class.
func DrawIOFault(t *tape.Tape, cfg *simio.Config, fields []refmodel.Field, limit int) bool {
	on := t.Intn(6) == 0
	where, arg := t.Intn(3), t.Draw(1<<32)
	if !on {
		return false
	}
	off := int(arg % uint64(limit+1))
	if len(fields) > 0 && where < 2 {
		f := fields[int(arg>>8)%len(fields)]
		if where == 0 {
			off = f.Off
			if arg&1 == 1 {
				off = f.Off + f.Width
			}
		} else if f.Width >= 2 {
			off = f.Off + 1 + int(arg>>20)%(f.Width-1)
		} else {
			off = f.Off
		}
	}
	cfg.ErrAt = int64(off)
	cfg.ErrSticky = arg>>1&1 == 1
	cfg.ErrWithData = arg>>2&1 == 1
	cfg.ErrID = 900 + off%97
	return true
}

func faultNote(cfg simio.Config, fired int) string {
	if cfg.ErrAt < 0 {
		return ""
	}
	return fmt.Sprintf(" [injected I/O error fired %d time(s) during Load]", fired)
}
