package props

import (
	"bufio"
	"fmt"
	"reflect"

	"github.com/mandykoh/prism/meta/binary"
	"github.com/mandykoh/prism/meta/icc"

	"verif.local/sim/refmodel"
	"verif.local/sim/simio"
	"verif.local/sim/tape"
)

// C08 — extraction results do not depend on how the source segments its data.
type c08 struct{}

func init() { register(c08{}) }

func (c08) ID() string    { return "C08" }
func (c08) Level() string { return "exploration" }
func (c08) Rule() string {
	return "each run draws one input (generated valid / ICC-damaged / byte-damaged / corpus / polyglot image, or a generated / damaged / corpus ICC profile) and one delivery schedule (FIXED 1,2,3,7,8,4095,4096,4097; RANDOM; BURSTY; BOUNDARY inside drawn fields; +EOF-with-data; +zero-length reads; for the ICC reader also a bufio.Reader of drawn size in front), executes the loader / profile reader once with FULL delivery and once under the schedule and compares outcomes. Non-trivial: the schedule answered at least one request short (or fired a zero-length read / EOF-with-data) while the code under test was reading; distinct = hash(input, loader, delivery log)."
}
func (c08) Exhaustive(string) string { return "" }
func (c08) Runs(tier string) int64 {
	if tier == "thorough" {
		return 24000000
	}
	return 400000
}
func (c08) Prefix(string, int64) []uint64 { return nil }

var c08weights = InputWeights{Corpus: 3, Valid: 6, ICCDamaged: 2, Damaged: 3, SigJunk: 1, Polyglot: 1, ShortSOF: 1, Soup: 3}
var c08iccSizes = []int{1, 2, 127, 500, 3000, 4000, 4090, 4096, 4100, 8192, 20000, 70000}

// ICCView is the observable content of a profile read.
type ICCView struct {
	OK      bool
	Header  icc.Header
	Desc    string
	DescErr bool
	Err     string
}

func readICC(r binary.Reader) (v ICCView, panicked interface{}) {
	defer func() {
		if p := recover(); p != nil {
			panicked = p
		}
	}()
	p, err := icc.NewProfileReader(r).ReadProfile()
	if err != nil {
		v.Err = err.Error()
		return
	}
	if p == nil {
		v.Err = "nil profile without error"
		return
	}
	v.OK = true
	v.Header = p.Header
	d, derr := p.Description()
	v.Desc, v.DescErr = d, derr != nil
	return
}

// descComparable: the value of Description() is a deterministic function of
// the profile bytes unless a multi-localised tag offers several candidates
// (Go's map iteration order then picks one); in that case only error-ness is
// compared between two executions.
func descComparable(b []byte) bool {
	if len(b) < 132 {
		return true
	}
	n := int(refmodel.GetBE(b, 128, 4))
	descOff := -1
	for i := 0; i < n && 132+12*(i+1) <= len(b); i++ {
		if string(b[132+12*i:136+12*i]) == "desc" {
			descOff = int(refmodel.GetBE(b, 136+12*i, 4)) // later entries overwrite earlier ones
		}
	}
	if descOff < 0 || descOff+12 > len(b) {
		return true
	}
	if string(b[descOff:descOff+4]) != "mluc" {
		return true
	}
	return refmodel.GetBE(b, descOff+8, 4) <= 1
}

func headerEqual(a, b icc.Header) bool {
	ta, tb := a.CreatedAt, b.CreatedAt
	a.CreatedAt, b.CreatedAt = ta.UTC(), ta.UTC()
	return ta.Equal(tb) && reflect.DeepEqual(a, b)
}

func (c08) Run(t *tape.Tape, st *Stats) *Violation {
	st.Evals++
	if t.Pick(6, 3) == 0 {
		return c08image(t, st)
	}
	return c08icc(t, st)
}

func c08image(t *tape.Tape, st *Stats) *Violation {
	in := DrawInput(t, c08weights, c08iccSizes)
	var loader Loader
	switch t.Pick(3, 3, 1) {
	case 0:
		loader = LoaderAuto
	case 1:
		if in.Truth != nil {
			loader = SpecificLoader(in.Truth.Format)
		} else {
			loader = Loaders[t.Intn(3)]
		}
	default:
		loader = Loaders[t.Intn(4)]
	}
	// a fifth of the inputs is additionally cut at the start or end of a drawn
	// structure (or inside it): how the last bytes arrive - alone, or together
	// with EOF - then matters right at a structure boundary
	if t.Chance(1, 5) && len(in.Fields) > 0 && len(in.Data) > 0 {
		f := in.Fields[t.Intn(len(in.Fields))]
		n := f.Off
		switch t.Intn(3) {
		case 1:
			n = f.Off + f.Width
		case 2:
			n = f.Off + t.Intn(f.Width+1)
		}
		if n <= len(in.Data) {
			in.Data = in.Data[:n]
			in.Desc += fmt.Sprintf(" cut at %d (%s)", n, f.Name)
			in.Truth = nil
		}
	} else {
		t.Intn(1)
		t.Intn(3)
	}
	// a JPEG that defers its number of lines: height 0 in the frame header, the
	// value in a DNL segment behind the first scan (legal per T.81 B.2.5, rare in
	// practice). What a loader makes of it is its business - C08 only demands the
	// same outcome under every delivery. One run in forty.
	dnl, dnlArg := t.Intn(40) == 0, t.Draw(1<<32)
	if dnl && in.Truth != nil && in.Truth.Format == "JPEG" {
		hOff, sosEnd := -1, -1
		for _, f := range in.Fields {
			switch f.Name {
			case "SOF.height":
				hOff = f.Off
			case "SOS.length":
				sosEnd = f.Off + int(refmodel.GetBE(in.Data, f.Off, 2))
			}
		}
		if hOff >= 0 && sosEnd > 0 && sosEnd <= len(in.Data) {
			r := tape.NewRand(dnlArg)
			d := append([]byte{}, in.Data[:sosEnd]...)
			d[hOff], d[hOff+1] = 0, 0
			scan := func(n int) {
				for i := 0; i < n; i++ {
					b := byte(r.Intn(256))
					d = append(d, b)
					if b == 0xFF {
						d = append(d, 0x00) // byte stuffing
					}
				}
			}
			scan(r.Intn(40))
			if r.Intn(2) == 0 {
				d = append(d, 0xFF, 0xD0+byte(r.Intn(8))) // a restart marker inside the scan
				scan(r.Intn(40))
			}
			lines := 1 + r.Intn(65535)
			d = append(d, 0xFF, 0xDC, 0x00, 0x04, byte(lines>>8), byte(lines))
			scan(r.Intn(3000))
			d = append(d, 0xFF, 0xD9)
			in.Data, in.Fields, in.Truth = d, refmodel.WalkFields(d), nil
			in.Desc += fmt.Sprintf(" [number of lines deferred to a DNL segment: %d]", lines)
			in.Class = "jpeg-dnl"
		}
	}
	st.Probe("jpeg_with_dnl_deferred_height", in.Class == "jpeg-dnl")
	cfg := DrawDelivery(t, in.Fields, true)
	ref := SafeLoad(loader, simio.NewSource(simio.Bytes(in.Data), simio.Config{TruncAt: -1, ErrAt: -1}))
	src := simio.NewSource(simio.Bytes(in.Data), cfg)
	got := SafeLoad(loader, src)
	st.Class("image:" + in.Class)
	deliveryStats(st, src)
	straddleProbe(st, src, in.Fields, src.Delivered)
	rv, gv := View(ref), View(got)
	st.Probe("reference_load_succeeded", rv.OK)
	st.Probe("reference_has_icc", rv.OK && !rv.ICCNil)
	st.Probe("icc_gt_buffer", rv.ICCLen > 4096)
	if src.ShortReads > 0 || src.ZeroReads > 0 || src.EOFWithDataFired > 0 {
		st.Mark(tape.Mix(tape.HashString(in.Desc), uint64(len(in.Data)), tape.HashString(loader.Name), src.LogHash))
	}
	render := func() interface{} {
		return map[string]interface{}{"target": loader.Name, "input": in.Desc, "input_class": in.Class, "input_len": len(in.Data), "stored_faults": in.Faults,
			"delivery": cfg.String(), "delivery_log": src.LogString(), "reference(FULL)": rv, "under_schedule": gv, "input_hex": hex(in.Data, 512)}
	}
	if st.WantSample() {
		st.Sample(render())
	}
	if ref.Panic != nil || got.Panic != nil {
		return &Violation{Class: "panic", Sig: loader.Name + ":panic", Detail: fmt.Sprintf("Load panicked: ref=%v scheduled=%v", ref.Panic, got.Panic), Render: render()}
	}
	if ok, class := SameOutcome(rv, gv); !ok {
		return &Violation{Class: class, Sig: loader.Name + ":" + class,
			Detail: fmt.Sprintf("%s under %s: %+v; with FULL delivery: %+v", loader.Name, cfg.String(), gv, rv), Render: render()}
	}
	return nil
}

func c08icc(t *tape.Tape, st *Stats) *Violation {
	var data []byte
	var fields []refmodel.Field
	desc, class := "", ""
	comparable := true
	switch t.Pick(5, 3, 2) {
	case 0:
		p := refmodel.DrawICC(t, refmodel.ICCOpts{BigText: t.Chance(1, 6)})
		data, fields, desc, class = p.Bytes, p.Fields, p.Summary, "icc:valid"
		// with several mluc records the value may depend on Go's map iteration
		// order (C17 judges those against the acceptable set instead)
		comparable = len(p.Records) <= 1
	case 1:
		p := refmodel.DrawICC(t, refmodel.ICCOpts{})
		data = append([]byte{}, p.Bytes...)
		fields = p.Fields
		var f string
		data, f = ApplyStoredFault(t, data, fields)
		desc, class = p.Summary+" + "+f, "icc:damaged"
		comparable = descComparable(data)
	default:
		for _, c := range Corpus() {
			if len(c.Data) >= 132 && string(c.Data[36:40]) == "acsp" {
				data, fields, desc = c.Data, c.Fields, c.Name
			}
		}
		if t.Bool() && len(data) > 0 {
			data = data[:t.Intn(len(data))]
			desc += " (cut)"
		}
		class = "icc:corpus"
		comparable = descComparable(data)
	}
	cfg := DrawDelivery(t, fields, true)
	front := t.Pick(1, 1)
	bufSize := 16 + t.Intn(8177)
	rv, rp := readICC(simio.ByteSource{Source: simio.NewSource(simio.Bytes(data), simio.Config{TruncAt: -1, ErrAt: -1})})
	src := simio.NewSource(simio.Bytes(data), cfg)
	var gv ICCView
	var gp interface{}
	how := "binary.Reader directly on the simulated source"
	if front == 0 {
		gv, gp = readICC(simio.ByteSource{Source: src})
	} else {
		how = fmt.Sprintf("bufio.NewReaderSize(source, %d)", bufSize)
		gv, gp = readICC(bufio.NewReaderSize(src, bufSize))
	}
	st.Class(class)
	deliveryStats(st, src)
	st.Probe("icc_reference_read_succeeded", rv.OK)
	st.Probe("icc_description_compared", comparable && rv.OK)
	st.Probe("icc_through_bufio", front == 1)
	if src.ShortReads > 0 || src.ZeroReads > 0 || src.EOFWithDataFired > 0 || front == 1 {
		st.Mark(tape.Mix(tape.HashString(desc), uint64(len(data)), uint64(front), uint64(bufSize), src.LogHash))
	}
	render := func() interface{} {
		return map[string]interface{}{"target": "icc.NewProfileReader(r).ReadProfile", "input": desc, "input_len": len(data), "reader": how,
			"delivery": cfg.String(), "delivery_log": src.LogString(), "reference(FULL)": fmt.Sprintf("%+v", rv), "under_schedule": fmt.Sprintf("%+v", gv), "input_hex": hex(data, 700)}
	}
	if st.WantSample() {
		st.Sample(render())
	}
	fail := func(class, detail string) *Violation {
		return &Violation{Class: class, Sig: "icc:" + class, Detail: detail, Render: render()}
	}
	if rp != nil || gp != nil {
		return fail("panic", fmt.Sprintf("ReadProfile/Description panicked: ref=%v scheduled=%v", rp, gp))
	}
	if rv.OK != gv.OK {
		return fail("outcome-differs", fmt.Sprintf("ReadProfile via %s under %s: ok=%v err=%q; with FULL delivery: ok=%v err=%q", how, cfg.String(), gv.OK, gv.Err, rv.OK, rv.Err))
	}
	if !rv.OK {
		return nil
	}
	if !headerEqual(rv.Header, gv.Header) {
		return fail("metadata-differs", fmt.Sprintf("header differs: %+v vs %+v", gv.Header, rv.Header))
	}
	if rv.DescErr != gv.DescErr || (comparable && rv.Desc != gv.Desc) {
		return fail("metadata-differs", fmt.Sprintf("Description differs: %q/%v vs %q/%v", gv.Desc, gv.DescErr, rv.Desc, rv.DescErr))
	}
	return nil
}
