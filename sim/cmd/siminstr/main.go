// siminstr instruments a scratch copy of prism for engine B (go/ast, std only):
//
//   - simrt.Yield(site) before every statement of every function and function
//     literal of the non-test files of the instrumented packages;
//   - sync.Once / Mutex / RWMutex / WaitGroup -> simrt.Once / ...;
//   - `go f(x)` -> simrt.Go(func() { f(x) }).
//
// Nothing else changes: whatever the working tree contains is instrumented as it
// is. A site table (id -> file:line, hot flag) is written for reporting; "hot"
// marks statements in */lut.go and inside function literals (the worker
// closures), which is where first-use and per-pixel preemptions matter.
package main

import (
	"bytes"
	"encoding/json"
	"flag"
	"fmt"
	"go/ast"
	"go/format"
	"go/parser"
	"go/token"
	"os"
	"path/filepath"
	"reflect"
	"sort"
	"strings"
)

type Site struct {
	ID   int    `json:"id"`
	Pos  string `json:"pos"`
	Hot  bool   `json:"hot"`
	Func string `json:"func"`
}

var (
	sites []Site
	root  string
)

// packages (directories relative to the module root) that get yields
var targets = []string{".", "srgb", "adobergb", "prophotorgb", "displayp3", "linear", "linear/lut", "ciexyz", "ciexyy", "cielab", "matrix"}

func main() {
	flag.StringVar(&root, "root", "", "root of the scratch copy")
	out := flag.String("sites", "", "site table output")
	pkgs := flag.String("pkgs", "", "comma separated package directories to instrument instead of the default colour packages")
	withMeta := flag.Bool("meta", false, "with the default package discovery: instrument meta/* too")
	flag.Parse()
	if *pkgs != "" {
		targets = strings.Split(*pkgs, ",")
	} else {
		// every package of the tree except meta/* (kept as atomic steps, see
		// DESIGN 5.1): a refactored tree may have moved code into new packages
		// (an in-repo worker pool, say), and goroutines started there must be
		// tasks of the simulator too
		targets = nil
		filepath.Walk(root, func(path string, info os.FileInfo, err error) error {
			if err != nil || !info.IsDir() {
				return nil
			}
			rel, _ := filepath.Rel(root, path)
			base := filepath.Base(path)
			if rel != "." && (strings.HasPrefix(base, ".") || base == "vendor" || base == "testdata") {
				return filepath.SkipDir
			}
			if !*withMeta && (rel == "meta" || strings.HasPrefix(filepath.ToSlash(rel), "meta/")) {
				return filepath.SkipDir
			}
			targets = append(targets, rel)
			return nil
		})
	}
	if root == "" {
		fmt.Fprintln(os.Stderr, "usage: siminstr -root DIR -sites FILE")
		os.Exit(2)
	}
	for _, d := range targets {
		dir := filepath.Join(root, d)
		ents, err := os.ReadDir(dir)
		if err != nil {
			continue // a refactored tree may not have the package
		}
		var names []string
		for _, e := range ents {
			n := e.Name()
			if e.IsDir() || !strings.HasSuffix(n, ".go") || strings.HasSuffix(n, "_test.go") {
				continue
			}
			names = append(names, n)
		}
		sort.Strings(names)
		for _, n := range names {
			if err := instrument(filepath.Join(dir, n), filepath.ToSlash(filepath.Join(d, n))); err != nil {
				fmt.Fprintf(os.Stderr, "siminstr: %s: %v\n", filepath.Join(d, n), err)
				os.Exit(1)
			}
		}
	}
	b, _ := json.Marshal(sites)
	if err := os.WriteFile(*out, b, 0o644); err != nil {
		fmt.Fprintln(os.Stderr, err)
		os.Exit(1)
	}
	fmt.Printf("siminstr: %d yield sites\n", len(sites))
}

type instr struct {
	chans   map[string]bool // names declared with a channel type or made with make(chan ...) in this file
	fset    *token.FileSet
	rel     string
	funcs   []string
	inLit   int
	changed bool
	syncUse int // remaining uses of the sync package after rewriting
}

func (in *instr) yieldStmt(pos token.Pos) ast.Stmt {
	p := in.fset.Position(pos)
	fn := ""
	if len(in.funcs) > 0 {
		fn = in.funcs[len(in.funcs)-1]
	}
	id := len(sites)
	sites = append(sites, Site{ID: id, Pos: fmt.Sprintf("%s:%d", in.rel, p.Line), Hot: strings.HasSuffix(in.rel, "/lut.go") || in.inLit > 0, Func: fn})
	in.changed = true
	return &ast.ExprStmt{X: &ast.CallExpr{
		Fun:  &ast.SelectorExpr{X: ast.NewIdent("simrt"), Sel: ast.NewIdent("Yield")},
		Args: []ast.Expr{&ast.BasicLit{Kind: token.INT, Value: fmt.Sprint(id)}},
	}}
}

func (in *instr) list(stmts []ast.Stmt) []ast.Stmt {
	out := make([]ast.Stmt, 0, 2*len(stmts))
	for _, s := range stmts {
		out = append(out, in.yieldStmt(s.Pos()))
		out = append(out, in.stmt(s))
	}
	return out
}

func (in *instr) block(b *ast.BlockStmt) {
	if b != nil {
		b.List = in.list(b.List)
	}
}

// stmt instruments nested statement lists and expressions of s and returns the
// (possibly replaced) statement.
func (in *instr) stmt(s ast.Stmt) ast.Stmt {
	switch x := s.(type) {
	case *ast.BlockStmt:
		in.block(x)
	case *ast.IfStmt:
		if x.Init != nil {
			in.exprsIn(x.Init)
		}
		in.expr(x.Cond)
		in.block(x.Body)
		if x.Else != nil {
			x.Else = in.stmt(x.Else)
		}
	case *ast.ForStmt:
		if x.Init != nil {
			in.exprsIn(x.Init)
		}
		if x.Cond != nil {
			in.expr(x.Cond)
		}
		if x.Post != nil {
			in.exprsIn(x.Post)
		}
		in.block(x.Body)
	case *ast.RangeStmt:
		in.expr(x.X)
		in.block(x.Body)
		if id, ok := x.X.(*ast.Ident); ok && in.chans[id.Name] && x.Value == nil {
			// for v := range ch { B }  ->  for { v, ok := simrt.Recv2(ch); if !ok { break }; B }
			in.changed = true
			okID := ast.NewIdent("_simok")
			var recv ast.Stmt
			lhs := []ast.Expr{ast.NewIdent("_"), okID}
			if x.Key != nil {
				lhs[0] = x.Key
			}
			if x.Tok == token.ASSIGN {
				recv = &ast.AssignStmt{Lhs: lhs, Tok: token.ASSIGN, Rhs: []ast.Expr{simrtCall("Recv2", x.X)}}
				x.Body.List = append([]ast.Stmt{
					&ast.DeclStmt{Decl: &ast.GenDecl{Tok: token.VAR, Specs: []ast.Spec{&ast.ValueSpec{Names: []*ast.Ident{okID}, Type: ast.NewIdent("bool")}}}},
					recv,
					&ast.IfStmt{Cond: &ast.UnaryExpr{Op: token.NOT, X: ast.NewIdent("_simok")}, Body: &ast.BlockStmt{List: []ast.Stmt{&ast.BranchStmt{Tok: token.BREAK}}}},
				}, x.Body.List...)
			} else {
				recv = &ast.AssignStmt{Lhs: lhs, Tok: token.DEFINE, Rhs: []ast.Expr{simrtCall("Recv2", x.X)}}
				x.Body.List = append([]ast.Stmt{
					recv,
					&ast.IfStmt{Cond: &ast.UnaryExpr{Op: token.NOT, X: ast.NewIdent("_simok")}, Body: &ast.BlockStmt{List: []ast.Stmt{&ast.BranchStmt{Tok: token.BREAK}}}},
				}, x.Body.List...)
			}
			return &ast.ForStmt{Body: x.Body}
		}
	case *ast.SwitchStmt:
		if x.Init != nil {
			in.exprsIn(x.Init)
		}
		if x.Tag != nil {
			in.expr(x.Tag)
		}
		for _, c := range x.Body.List {
			cc := c.(*ast.CaseClause)
			cc.Body = in.list(cc.Body)
		}
	case *ast.TypeSwitchStmt:
		if x.Init != nil {
			in.exprsIn(x.Init)
		}
		in.exprsIn(x.Assign)
		for _, c := range x.Body.List {
			cc := c.(*ast.CaseClause)
			cc.Body = in.list(cc.Body)
		}
	case *ast.LabeledStmt:
		x.Stmt = in.stmt(x.Stmt)
	case *ast.SendStmt:
		in.expr(x.Chan)
		in.expr(x.Value)
		in.changed = true
		return &ast.ExprStmt{X: simrtCall("Send", x.Chan, x.Value)}
	case *ast.SelectStmt:
		for _, c := range x.Body.List {
			cc := c.(*ast.CommClause)
			cc.Body = in.list(cc.Body)
		}
		if sw := in.selectStmt(x); sw != nil {
			in.changed = true
			return sw
		}
		// not modelled (a case waits on a channel fed by the runtime: timers,
		// contexts): left as it is; a tree that blocks there trips the watchdog
	case *ast.GoStmt:
		in.expr(x.Call)
		in.changed = true
		// `go f(a, b)` evaluates f, a and b in the calling goroutine: keep that.
		//   { _simf := f; _sima0, _sima1 := a, b; simrt.Go(func() { _simf(_sima0, _sima1) }) }
		var lhs, rhs []ast.Expr
		call := &ast.CallExpr{Fun: ast.NewIdent("_simf"), Ellipsis: x.Call.Ellipsis}
		if id, ok := x.Call.Fun.(*ast.Ident); ok && id.Obj == nil && builtinFuncs[id.Name] {
			call.Fun = x.Call.Fun // `go panic(v)`: a builtin cannot be bound to a variable
		} else if sel, ok := x.Call.Fun.(*ast.SelectorExpr); ok && isIdent(sel.X, "simrt") {
			call.Fun = x.Call.Fun // `go close(ch)`, already rewritten to the generic simrt.Close
		} else {
			lhs = append(lhs, ast.NewIdent("_simf"))
			rhs = append(rhs, x.Call.Fun)
		}
		for i, a := range x.Call.Args {
			id := ast.NewIdent(fmt.Sprintf("_sima%d", i))
			lhs = append(lhs, id)
			rhs = append(rhs, a)
			call.Args = append(call.Args, ast.NewIdent(id.Name))
		}
		if x.Call.Ellipsis != token.NoPos {
			call.Ellipsis = 1
		}
		goCall := &ast.ExprStmt{X: &ast.CallExpr{
			Fun: &ast.SelectorExpr{X: ast.NewIdent("simrt"), Sel: ast.NewIdent("Go")},
			Args: []ast.Expr{&ast.FuncLit{
				Type: &ast.FuncType{Params: &ast.FieldList{}},
				Body: &ast.BlockStmt{List: []ast.Stmt{&ast.ExprStmt{X: call}}},
			}},
		}}
		if len(lhs) == 0 {
			return goCall
		}
		return &ast.BlockStmt{List: []ast.Stmt{
			&ast.AssignStmt{Lhs: lhs, Tok: token.DEFINE, Rhs: rhs},
			goCall,
		}}
	default:
		in.exprsIn(s)
	}
	return s
}

// selectStmt rewrites
//
//	select { case v, ok := <-a: A; case b <- e: B; default: D }
//
// to
//
//	switch _simc0, _simc1 := simrt.RecvCase(a), simrt.SendCase(b, e); simrt.Select(true, _simc0, _simc1) {
//	case 0: v, ok := _simc0.V, _simc0.Ok; A
//	case 1: B
//	default: D
//	}
//
// (channel operands and send values are evaluated once, in source order, as the
// select statement does). It returns nil when a receive case names a channel
// that the simulator cannot see being fed (a call such as time.After(d) or
// ctx.Done(), or a timer's C field).
func (in *instr) selectStmt(x *ast.SelectStmt) ast.Stmt {
	unparen := func(e ast.Expr) ast.Expr {
		for {
			p, ok := e.(*ast.ParenExpr)
			if !ok {
				return e
			}
			e = p.X
		}
	}
	recvOf := func(e ast.Expr) ast.Expr {
		if u, ok := unparen(e).(*ast.UnaryExpr); ok && u.Op == token.ARROW {
			return u.X
		}
		return nil
	}
	foreign := func(ch ast.Expr) bool {
		bad := false
		ast.Inspect(ch, func(n ast.Node) bool {
			switch y := n.(type) {
			case *ast.CallExpr:
				bad = true
			case *ast.SelectorExpr:
				if y.Sel.Name == "C" {
					bad = true
				}
			case *ast.FuncLit:
				return false
			}
			return true
		})
		return bad
	}
	sw := &ast.SwitchStmt{Body: &ast.BlockStmt{}}
	var lhs, rhs []ast.Expr
	hasDefault := "false"
	for _, c := range x.Body.List {
		cc := c.(*ast.CommClause)
		if cc.Comm == nil {
			hasDefault = "true"
			sw.Body.List = append(sw.Body.List, &ast.CaseClause{Body: cc.Body})
			continue
		}
		name := fmt.Sprintf("_simc%d", len(lhs))
		var prelude ast.Stmt
		switch y := cc.Comm.(type) {
		case *ast.SendStmt:
			in.expr(y.Chan)
			in.expr(y.Value)
			rhs = append(rhs, simrtCall("SendCase", y.Chan, y.Value))
		case *ast.ExprStmt:
			ch := recvOf(y.X)
			if ch == nil || foreign(ch) {
				return nil
			}
			in.expr(ch)
			rhs = append(rhs, simrtCall("RecvCase", ch))
		case *ast.AssignStmt:
			if len(y.Rhs) != 1 {
				return nil
			}
			ch := recvOf(y.Rhs[0])
			if ch == nil || foreign(ch) {
				return nil
			}
			in.expr(ch)
			rhs = append(rhs, simrtCall("RecvCase", ch))
			vals := []ast.Expr{&ast.SelectorExpr{X: ast.NewIdent(name), Sel: ast.NewIdent("V")}}
			if len(y.Lhs) == 2 {
				vals = append(vals, &ast.SelectorExpr{X: ast.NewIdent(name), Sel: ast.NewIdent("Ok")})
			}
			prelude = &ast.AssignStmt{Lhs: y.Lhs, Tok: y.Tok, Rhs: vals}
		default:
			return nil
		}
		body := cc.Body
		if prelude != nil {
			body = append([]ast.Stmt{prelude}, body...)
		}
		sw.Body.List = append(sw.Body.List, &ast.CaseClause{
			List: []ast.Expr{&ast.BasicLit{Kind: token.INT, Value: fmt.Sprint(len(lhs))}},
			Body: body,
		})
		lhs = append(lhs, ast.NewIdent(name))
	}
	args := []ast.Expr{ast.NewIdent(hasDefault)}
	for _, l := range lhs {
		args = append(args, ast.NewIdent(l.(*ast.Ident).Name))
	}
	if len(lhs) > 0 {
		sw.Init = &ast.AssignStmt{Lhs: lhs, Tok: token.DEFINE, Rhs: rhs}
	}
	sw.Tag = simrtCall("Select", args...)
	return sw
}

func isIdent(e ast.Expr, name string) bool {
	id, ok := e.(*ast.Ident)
	return ok && id.Name == name
}

// builtinFuncs are the predeclared functions, which cannot be used as values.
var builtinFuncs = map[string]bool{
	"panic": true, "print": true, "println": true, "close": true, "delete": true,
	"copy": true, "clear": true, "recover": true, "append": true, "len": true, "cap": true,
	"min": true, "max": true, "new": true, "make": true, "complex": true, "real": true, "imag": true,
}

// exprsIn visits the function literals (and type references) inside a simple
// statement.
func (in *instr) exprsIn(n ast.Node) {
	// v, ok := <-ch  /  v, ok = <-ch
	if as, ok := n.(*ast.AssignStmt); ok && len(as.Lhs) == 2 && len(as.Rhs) == 1 {
		if u, ok := as.Rhs[0].(*ast.UnaryExpr); ok && u.Op == token.ARROW {
			as.Rhs[0] = simrtCall("Recv2", u.X)
			in.changed = true
		}
	}
	ast.Inspect(n, func(m ast.Node) bool {
		if m == nil {
			return true
		}
		in.replaceRecvs(m)
		switch y := m.(type) {
		case *ast.FuncLit:
			in.funcLit(y)
			return false
		case *ast.SelectorExpr:
			in.selector(y)
		case *ast.CallExpr:
			if id, ok := y.Fun.(*ast.Ident); ok && id.Name == "close" && id.Obj == nil && len(y.Args) == 1 {
				y.Fun = &ast.SelectorExpr{X: ast.NewIdent("simrt"), Sel: ast.NewIdent("Close")}
				in.changed = true
			}
		}
		return true
	})
}

func simrtCall(name string, args ...ast.Expr) *ast.CallExpr {
	return &ast.CallExpr{Fun: &ast.SelectorExpr{X: ast.NewIdent("simrt"), Sel: ast.NewIdent(name)}, Args: args}
}

var exprType = reflect.TypeOf((*ast.Expr)(nil)).Elem()

// replaceRecvs replaces every direct child expression of m that is a receive
// (`<-ch`) by simrt.Recv(ch), whatever field of m holds it.
func (in *instr) replaceRecvs(m ast.Node) {
	v := reflect.ValueOf(m)
	if v.Kind() != reflect.Ptr || v.IsNil() || v.Elem().Kind() != reflect.Struct {
		return
	}
	v = v.Elem()
	fix := func(f reflect.Value) {
		if f.IsNil() {
			return
		}
		if u, ok := f.Interface().(*ast.UnaryExpr); ok && u.Op == token.ARROW {
			f.Set(reflect.ValueOf(ast.Expr(simrtCall("Recv", u.X))))
			in.changed = true
		}
	}
	for i := 0; i < v.NumField(); i++ {
		f := v.Field(i)
		switch {
		case f.Type() == exprType:
			fix(f)
		case f.Kind() == reflect.Slice && f.Type().Elem() == exprType:
			for j := 0; j < f.Len(); j++ {
				fix(f.Index(j))
			}
		}
	}
}

func (in *instr) expr(e ast.Expr) {
	if e != nil {
		in.exprsIn(e)
	}
}

func (in *instr) funcLit(f *ast.FuncLit) {
	in.inLit++
	in.typeRefs(f.Type)
	in.block(f.Body)
	in.inLit--
}

var syncTypes = map[string]bool{"Once": true, "Mutex": true, "RWMutex": true, "WaitGroup": true, "Cond": true, "NewCond": true}

func (in *instr) selector(s *ast.SelectorExpr) {
	if id, ok := s.X.(*ast.Ident); ok && id.Name == "sync" && id.Obj == nil {
		if syncTypes[s.Sel.Name] {
			id.Name = "simrt"
			in.changed = true
		} else {
			in.syncUse++
		}
	}
}

func (in *instr) typeRefs(n ast.Node) {
	if n == nil {
		return
	}
	ast.Inspect(n, func(m ast.Node) bool {
		if s, ok := m.(*ast.SelectorExpr); ok {
			in.selector(s)
		}
		return true
	})
}

func instrument(path, rel string) error {
	fset := token.NewFileSet()
	f, err := parser.ParseFile(fset, path, nil, parser.ParseComments)
	if err != nil {
		return err
	}
	in := &instr{fset: fset, rel: rel, chans: chanNames(f)}
	for _, d := range f.Decls {
		switch x := d.(type) {
		case *ast.FuncDecl:
			in.typeRefs(x.Type)
			if x.Recv != nil {
				in.typeRefs(x.Recv)
			}
			if x.Body != nil {
				in.funcs = append(in.funcs, x.Name.Name)
				in.block(x.Body)
				in.funcs = in.funcs[:len(in.funcs)-1]
			}
		case *ast.GenDecl:
			// package-level vars / types: rewrite sync types, instrument function
			// literals in initialisers
			in.funcs = append(in.funcs, "<package>")
			in.exprsIn(x)
			in.funcs = in.funcs[:len(in.funcs)-1]
		}
	}
	if !in.changed {
		return nil
	}
	// imports: add simrt, drop sync if no longer used
	var keepSync = in.syncUse > 0
	for _, d := range f.Decls {
		g, ok := d.(*ast.GenDecl)
		if !ok || g.Tok != token.IMPORT {
			continue
		}
		specs := g.Specs[:0]
		for _, s := range g.Specs {
			is := s.(*ast.ImportSpec)
			if is.Path.Value == `"sync"` && !keepSync {
				continue
			}
			specs = append(specs, s)
		}
		g.Specs = specs
	}
	// keep only build constraints and directives; free-floating comments would be
	// misplaced by the inserted statements
	var cgs []*ast.CommentGroup
	for _, cg := range f.Comments {
		if cg.End() < f.Package {
			cgs = append(cgs, cg)
		}
	}
	f.Comments = cgs
	f.Decls = append([]ast.Decl{&ast.GenDecl{Tok: token.IMPORT, Specs: []ast.Spec{
		&ast.ImportSpec{Name: ast.NewIdent("simrt"), Path: &ast.BasicLit{Kind: token.STRING, Value: `"verif.local/simrt"`}},
	}}}, f.Decls...)
	var buf bytes.Buffer
	if err := format.Node(&buf, fset, f); err != nil {
		return err
	}
	// re-parse to be sure that what was written is valid Go
	if _, err := parser.ParseFile(token.NewFileSet(), path, buf.Bytes(), 0); err != nil {
		return fmt.Errorf("instrumented source does not parse: %v", err)
	}
	return os.WriteFile(path, buf.Bytes(), 0o644)
}

// chanNames collects, syntactically, the identifiers of a file that denote
// channels: declared with a channel type (variables, parameters, fields) or
// assigned from make(chan ...). Used to recognise `for v := range ch`.
func chanNames(f *ast.File) map[string]bool {
	out := map[string]bool{}
	isChanType := func(e ast.Expr) bool {
		_, ok := e.(*ast.ChanType)
		return ok
	}
	isMakeChan := func(e ast.Expr) bool {
		c, ok := e.(*ast.CallExpr)
		if !ok || len(c.Args) == 0 {
			return false
		}
		id, ok := c.Fun.(*ast.Ident)
		return ok && id.Name == "make" && isChanType(c.Args[0])
	}
	ast.Inspect(f, func(n ast.Node) bool {
		switch x := n.(type) {
		case *ast.Field:
			if isChanType(x.Type) {
				for _, id := range x.Names {
					out[id.Name] = true
				}
			}
		case *ast.ValueSpec:
			for i, id := range x.Names {
				if (x.Type != nil && isChanType(x.Type)) || (i < len(x.Values) && isMakeChan(x.Values[i])) {
					out[id.Name] = true
				}
			}
		case *ast.AssignStmt:
			for i, l := range x.Lhs {
				if id, ok := l.(*ast.Ident); ok && i < len(x.Rhs) && isMakeChan(x.Rhs[i]) {
					out[id.Name] = true
				}
			}
		}
		return true
	})
	return out
}
