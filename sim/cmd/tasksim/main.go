// tasksim is engine B: the yield-instrumented copy of prism under the seeded
// task scheduler, built with the race detector.
package main

import (
	"fmt"
	"os"
	"time"

	"verif.local/sim/orch"
	"verif.local/sim/taskprops"
	"verif.local/simrt"
)

func main() {
	if !simrt.RaceEnabled {
		fmt.Println("HARNESS-ERROR: tasksim must be built with -race")
		os.Exit(2)
	}
	taskprops.LoadSites()
	dir := os.Getenv("VERIF_RACELOG_DIR")
	if dir == "" {
		dir = os.TempDir()
	}
	orch.Main(taskprops.Registry, orch.Hooks{
		Engine: "B/tasksim",
		Components: map[string]string{
			"prism root package, srgb, adobergb, prophotorgb, displayp3, linear, linear/lut, ciexyz, ciexyy, cielab, matrix": "real code, scratch copy with a simrt.Yield before every statement (go/ast), sync.* types swapped for simulator-aware wrappers around the real primitives",
			"prism meta/* loaders (used as C11 operations)":                                                                  "real code, yield-instrumented like the colour packages (loader calls of different tasks interleave statement by statement), on task-private simulated sources",
			"github.com/mandykoh/go-parallel RunWorkers":                                                                     "stub with the same contract and happens-before edges, workers run as tasks of the simulator",
			"goroutine scheduling among caller tasks and library workers":                                                    "simulated (seeded: SERIAL-PERM, RANDOM-WALK, PCT, SITE-BIAS), serial, invisible to the race detector",
			"sync.Once / Mutex / WaitGroup semantics":                                                                        "real primitives; a task that would block is parked by the simulator first",
			"Go runtime, garbage collector, race detector (ThreadSanitizer runtime)":                                         "real; the race detector is an oracle",
			"image/draw, image/color (reference for C15)":                                                                    "real, used as oracle",
		},
		Assume: []string{
			"statement-atomic interleaving: preemption happens only at the inserted yields; hardware-level tearing and compiler reordering are covered by the race detector's happens-before analysis, not by the value oracle",
			"the race detector keeps the last few accesses per 8-byte word; runs are kept small so that a conflicting access is not evicted before its partner arrives",
			"channel operations, range over channels, select and sync.Cond introduced by an edit are modelled by simrt; selects that wait on runtime-fed channels (timers, contexts) and cgo are not (the run then trips the watchdog: exit 2)",
		},
		PerRunTimeout: 60 * time.Second,
		WorkerEnv:     []string{"GORACE=halt_on_error=0 exitcode=0 atexit_sleep_ms=0 suppress_equal_stacks=0 suppress_equal_addresses=0 history_size=7 log_path=" + dir + "/race"},
		ShrinkMax:     map[string]int{"C11": 60},
		Extra:         taskprops.Extra,
	})
}
