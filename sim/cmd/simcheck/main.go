// simcheck is engine A (iosim): one caller, a simulated source.
package main

import (
	"time"

	"verif.local/sim/orch"
	"verif.local/sim/props"
)

func main() {
	orch.Main(props.Registry, orch.Hooks{
		Engine: "A/iosim",
		Components: map[string]string{
			"prism meta/pngmeta, meta/jpegmeta, meta/webpmeta, meta/autometa, meta/icc, meta/binary":     "real",
			"bufio.Reader, io.TeeReader, io.MultiReader, bytes.Buffer, compress/zlib (as used by prism)": "real",
			"source io.Reader / binary.Reader handed to the loaders":                                     "simulated (simio.Source: seeded segmentation, zero-length reads, EOF placement, I/O errors, truncation)",
			"stored bytes (the 'disk')":              "simulated (generated from the format specifications, optionally damaged)",
			"consumer of the returned replay stream": "simulated (drawn request sizes)",
			"reference decoders image/png, image/jpeg, x/image/webp DecodeConfig, compress/zlib inflate": "real, used as oracle / generator self-check only",
			"goroutine scheduling": "not applicable in this engine (single caller)",
		},
		Assume: []string{
			"the Go runtime, bufio, io and compress/zlib behave as documented",
			"generated files follow the PNG, JFIF/ICC Annex B, WebP container and ICC.1 specifications; a sample is cross-checked against the standard decoders on every batch (mismatch = exit 2)",
			"verdicts are sampled over seeds except where the evidence says a finite set was enumerated",
		},
		HangIsViolation: map[string]bool{"C09": true},
		// no run of this engine legitimately takes a second; a run still going
		// after 20 s (then 60 s on the confirming retry) is a hang
		PerRunTimeout: 20 * time.Second,
	})
}
