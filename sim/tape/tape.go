// Package tape is the single source of every choice a simulated run makes.
//
// A Tape in generate mode takes values from a xoshiro256** PRNG seeded from one
// integer and records them; in replay mode it returns the recorded values
// (reduced modulo the requested bound, exhausted tape => 0). Zero is by
// convention the "simplest" choice of every generator, so shrinking a tape
// removes faults, context switches and ancillary structure first.
package tape

import "math/bits"

// SplitMix64 is the usual 64-bit mixer; used to derive per-run seeds.
func SplitMix64(x uint64) uint64 {
	x += 0x9E3779B97F4A7C15
	z := x
	z = (z ^ (z >> 30)) * 0xBF58476D1CE4E5B9
	z = (z ^ (z >> 27)) * 0x94D049BB133111EB
	return z ^ (z >> 31)
}

// Mix derives a seed from a base seed and any number of integers.
func Mix(base uint64, parts ...uint64) uint64 {
	h := SplitMix64(base)
	for _, p := range parts {
		h = SplitMix64(h ^ SplitMix64(p+0x632BE59BD9B4E019))
	}
	return h
}

// HashString gives a stable 64-bit value for a string (FNV-1a then mixed).
func HashString(s string) uint64 {
	h := uint64(0xcbf29ce484222325)
	for i := 0; i < len(s); i++ {
		h ^= uint64(s[i])
		h *= 0x100000001b3
	}
	return SplitMix64(h)
}

// Rand is xoshiro256**.
type Rand struct{ s [4]uint64 }

func NewRand(seed uint64) *Rand {
	r := &Rand{}
	x := seed
	for i := range r.s {
		x = SplitMix64(x)
		r.s[i] = x
	}
	return r
}

func (r *Rand) Uint64() uint64 {
	res := bits.RotateLeft64(r.s[1]*5, 7) * 9
	t := r.s[1] << 17
	r.s[2] ^= r.s[0]
	r.s[3] ^= r.s[1]
	r.s[1] ^= r.s[2]
	r.s[0] ^= r.s[3]
	r.s[2] ^= t
	r.s[3] = bits.RotateLeft64(r.s[3], 45)
	return res
}

// Intn returns a value in [0,n); n<=0 gives 0. (Modulo bias is irrelevant here.)
func (r *Rand) Intn(n int) int {
	if n <= 1 {
		return 0
	}
	return int(r.Uint64() % uint64(n))
}

// Fill fills p with pseudo-random bytes.
func (r *Rand) Fill(p []byte) {
	i := 0
	for ; i+8 <= len(p); i += 8 {
		v := r.Uint64()
		p[i], p[i+1], p[i+2], p[i+3] = byte(v), byte(v>>8), byte(v>>16), byte(v>>24)
		p[i+4], p[i+5], p[i+6], p[i+7] = byte(v>>32), byte(v>>40), byte(v>>48), byte(v>>56)
	}
	if i < len(p) {
		v := r.Uint64()
		for ; i < len(p); i++ {
			p[i] = byte(v)
			v >>= 8
		}
	}
}

// Tape records or replays the choices of one run.
type Tape struct {
	Vals   []uint64
	pos    int
	replay bool
	forced []uint64
	rng    *Rand
	Seed   uint64
}

// New returns a generating tape. forced values are handed out first (and
// recorded), which is how enumerated cases pin their leading choices.
func New(seed uint64, forced []uint64) *Tape {
	return &Tape{rng: NewRand(seed), Seed: seed, forced: forced}
}

// Replay returns a replaying tape.
func Replay(vals []uint64) *Tape {
	return &Tape{Vals: vals, replay: true}
}

// Pos is the number of values consumed so far.
func (t *Tape) Pos() int { return t.pos }

// Draw returns a value in [0,n). n must be >= 1.
func (t *Tape) Draw(n uint64) uint64 {
	if n == 0 {
		n = 1
	}
	if t.replay {
		var v uint64
		if t.pos < len(t.Vals) {
			v = t.Vals[t.pos] % n
		}
		t.pos++
		return v
	}
	var v uint64
	if t.pos < len(t.forced) {
		v = t.forced[t.pos] % n
	} else {
		v = t.rng.Uint64() % n
	}
	t.Vals = append(t.Vals, v)
	t.pos++
	return v
}

func (t *Tape) Intn(n int) int {
	if n <= 1 {
		// still consume a slot so that the tape layout is independent of n
		t.Draw(1)
		return 0
	}
	return int(t.Draw(uint64(n)))
}

// Range returns a value in [lo,hi] inclusive.
func (t *Tape) Range(lo, hi int) int {
	if hi <= lo {
		t.Draw(1)
		return lo
	}
	return lo + int(t.Draw(uint64(hi-lo+1)))
}

// Bool is a fair coin; false is the simple outcome.
func (t *Tape) Bool() bool { return t.Draw(2) == 1 }

// Chance is true with probability num/den; false is the simple outcome.
// The drawn value is arranged so that 0 maps to false.
func (t *Tape) Chance(num, den int) bool {
	v := int(t.Draw(uint64(den)))
	return v >= den-num
}

// Pick returns an index chosen with the given integer weights; index 0 is the
// simple outcome.
func (t *Tape) Pick(weights ...int) int {
	tot := 0
	for _, w := range weights {
		tot += w
	}
	v := int(t.Draw(uint64(tot)))
	for i, w := range weights {
		if v < w {
			return i
		}
		v -= w
	}
	return 0
}

// Sub draws one value and returns a PRNG seeded from it, for bulk content whose
// individual bytes are not worth a tape slot each.
func (t *Tape) Sub() *Rand {
	return NewRand(t.Draw(1 << 32))
}

// U32 draws a full 32-bit value.
func (t *Tape) U32() uint32 { return uint32(t.Draw(1 << 32)) }
