package refmodel

import (
	"fmt"

	"verif.local/sim/tape"
)

type WebPKind int

const (
	WebPVP8 WebPKind = iota
	WebPVP8L
	WebPVP8X
)

func (k WebPKind) String() string { return [...]string{"VP8", "VP8L", "VP8X"}[k] }

type WebPParams struct {
	Kind WebPKind
	W, H uint32 // true pixel dimensions (1-based)
	// VP8
	Version   byte
	ShowFrame bool
	PartSize  uint32
	XScale    byte
	YScale    byte
	// VP8L
	Alpha bool
	// VP8X
	Flags    byte // beyond the ICC bit
	HasICC   bool
	ICC      []byte
	Damage   string   // "", "flag-without-chunk", "iccp-cut"
	Inner    WebPKind // image data chunk following (VP8 or VP8L)
	Trailing int      // number of EXIF/XMP-style chunks after the image data
	AlphLen  int      // > 0: an ALPH chunk of this size before the VP8 chunk of an extended file
	BodyLen  int64
}

func DrawWebP(t *tape.Tape, kind int, withICC int, iccSizes []int, allowDamage bool) WebPParams {
	var p WebPParams
	if kind < 0 {
		kind = t.Intn(3)
	}
	p.Kind = WebPKind(kind)
	max := uint32(1 << 14)
	if p.Kind == WebPVP8X {
		max = 1 << 24
	}
	if p.Kind == WebPVP8 {
		max = 1<<14 - 1 // 14-bit field stores the size itself
	}
	dim := func() uint32 {
		var v uint32
		switch t.Pick(4, 2, 2, 2) {
		case 0:
			v = uint32(1 + t.Intn(2048))
		case 1:
			v = uint32(1) << uint(t.Intn(25))
		case 2:
			v = [...]uint32{1, 255, 256, 257, 16383, 16384, 65535, 65536, 1<<24 - 1, 1 << 24, 0x3F00, 0x00FF, 0x0100}[t.Intn(13)]
		default:
			v = 1 + t.U32()%max
		}
		if v > max {
			v = max
		}
		if v < 1 {
			v = 1
		}
		return v
	}
	p.W, p.H = dim(), dim()
	p.Version = byte(t.Intn(4))
	p.ShowFrame = !t.Chance(1, 8)
	p.PartSize = uint32(t.Intn(1 << 19))
	p.XScale, p.YScale = byte(t.Intn(4)), byte(t.Intn(4))
	p.Alpha = t.Bool()
	if p.Kind == WebPVP8X {
		p.Flags = byte(t.Intn(16)) << 1 & 0x1E // animation, XMP, EXIF, alpha bits
		has := withICC == 1 || (withICC == 0 && t.Bool())
		if has {
			p.HasICC = true
			if iccSizes == nil {
				iccSizes = []int{1, 2, 3, 127, 128, 500, 3000, 4065, 4066, 4067, 4095, 4096, 4097, 8192, 20001, 70000}
			}
			p.ICC = ICCPayload(t, iccSizes)
			if allowDamage && t.Chance(1, 4) {
				p.Damage = [...]string{"flag-without-chunk", "iccp-cut"}[t.Intn(2)]
			}
		}
		p.Inner = WebPKind(t.Intn(2))
		p.Trailing = t.Intn(3)
		// lossy image data with a separate alpha plane: an ALPH chunk (pixel data,
		// possibly large) precedes the VP8 chunk
		if p.Inner == WebPVP8 && p.Flags&0x10 != 0 {
			switch t.Pick(2, 2, 1) {
			case 1:
				p.AlphLen = 1 + t.Intn(5000)
			case 2:
				p.AlphLen = 66000 + t.Intn(1200000)
			}
		}
	}
	switch t.Pick(2, 4, 2) {
	case 1:
		p.BodyLen = int64(1 + t.Intn(3000))
	case 2:
		p.BodyLen = int64(4000 + t.Intn(6000))
	}
	return p
}

func vp8Header(w *builder, p WebPParams, wpx, hpx uint32) {
	// frame tag: bit0 = 0 (key frame), 3 bits version, 1 bit show_frame, 19 bits first partition size
	tag := uint32(0) | uint32(p.Version&7)<<1 | p.PartSize<<5
	if p.ShowFrame {
		tag |= 1 << 4
	}
	w.u24le(tag)
	w.bytes([]byte{0x9d, 0x01, 0x2a})
	w.markLE("VP8.width", 2, "dim")
	w.u16le(uint16(wpx&0x3FFF) | uint16(p.XScale)<<14)
	w.markLE("VP8.height", 2, "dim")
	w.u16le(uint16(hpx&0x3FFF) | uint16(p.YScale)<<14)
}

func vp8lHeader(w *builder, p WebPParams, wpx, hpx uint32) {
	w.u8(0x2f)
	v := (wpx - 1) & 0x3FFF
	v |= ((hpx - 1) & 0x3FFF) << 14
	if p.Alpha {
		v |= 1 << 28
	}
	w.markLE("VP8L.dims", 4, "dim")
	w.u32le(v)
}

// BuildWebP renders the parameters. The lazily generated body is the tail of the
// image-data chunk.
func BuildWebP(p WebPParams) *File {
	w := &builder{}
	w.mark("RIFF", 4, "sig")
	w.str("RIFF")
	w.markLE("RIFF.size", 4, "length")
	riffSizeOff := w.off()
	w.u32le(0)
	w.mark("WEBP", 4, "sig")
	w.str("WEBP")
	tr := Truth{Format: "WebP", W: p.W, H: p.H, Bits: 8, ICCPayloadOff: -1}
	var trailer []byte
	imgChunk := func(kind WebPKind, wpx, hpx uint32) {
		hdr := &builder{}
		base := w.off() + 8
		if kind == WebPVP8 {
			vp8Header(hdr, p, wpx, hpx)
		} else {
			vp8lHeader(hdr, p, wpx, hpx)
		}
		w.mark(kind.String()+".type", 4, "type")
		if kind == WebPVP8 {
			w.str("VP8 ")
		} else {
			w.str("VP8L")
		}
		w.markLE(kind.String()+".length", 4, "length")
		total := int64(len(hdr.b)) + p.BodyLen
		w.u32le(uint32(total))
		for _, f := range hdr.fields {
			f.Off += base
			w.fields = append(w.fields, f)
		}
		w.bytes(hdr.b)
		if total%2 == 1 {
			trailer = append(trailer, 0)
		}
	}
	switch p.Kind {
	case WebPVP8:
		imgChunk(WebPVP8, p.W, p.H)
		tr.NeededEnd = 12 + 8 + 10
	case WebPVP8L:
		imgChunk(WebPVP8L, p.W, p.H)
		tr.NeededEnd = 12 + 8 + 5
	case WebPVP8X:
		w.mark("VP8X.type", 4, "type")
		w.str("VP8X")
		w.markLE("VP8X.length", 4, "length")
		w.u32le(10)
		fl := p.Flags
		if p.HasICC {
			fl |= 0x20
		}
		w.mark("VP8X.flags", 1, "flag")
		w.u8(fl)
		w.zeros(3)
		w.markLE("VP8X.width", 3, "dim")
		w.u24le(p.W - 1)
		w.markLE("VP8X.height", 3, "dim")
		w.u24le(p.H - 1)
		tr.NeededEnd = w.off()
		if p.HasICC && p.Damage != "flag-without-chunk" {
			w.mark("ICCP.type", 4, "type")
			w.str("ICCP")
			w.markLE("ICCP.length", 4, "length")
			w.u32le(uint32(len(p.ICC)))
			tr.ICCPayloadOff = w.off()
			w.mark("ICCP.data", len(p.ICC), "data")
			w.bytes(p.ICC)
			tr.ICCPayloadEnd = w.off()
			tr.NeededEnd = w.off()
			tr.ICCChunks = 1
			if len(p.ICC)%2 == 1 {
				w.u8(0)
			}
		}
		if p.HasICC {
			tr.ICCState = ICCPresent
			tr.ICC = p.ICC
			if p.Damage != "" {
				tr.ICCState = ICCDamaged
				tr.Damage = p.Damage
			}
		}
		if p.Damage == "iccp-cut" {
			// the file ends inside the ICCP payload (declared length longer than the data)
			cut := 1 + len(p.ICC)/2
			if cut > len(p.ICC) {
				cut = len(p.ICC)
			}
			w.b = w.b[:tr.ICCPayloadOff+len(p.ICC)-cut]
			PutLE(w.b, riffSizeOff, 4, uint64(len(w.b)-8))
			tr.Fields = w.fields
			tr.NeededEnd = len(w.b)
			tr.Desc = fmt.Sprintf("WebP VP8X %dx%d flags=%#x icc=%d bytes, file cut %d bytes before the end of ICCP", p.W, p.H, fl, len(p.ICC), cut)
			return &File{Head: w.b, Truth: tr}
		}
		if p.Flags&0x02 != 0 {
			// animation parameters chunk
			w.str("ANIM")
			w.u32le(6)
			w.zeros(6)
		}
		if p.AlphLen > 0 {
			w.str("ALPH")
			w.u32le(uint32(p.AlphLen))
			w.u8(0) // no preprocessing, no filtering, uncompressed
			w.zeros(p.AlphLen - 1 + p.AlphLen%2)
		}
		// the bitstream dimensions inside an extended file need not equal the canvas
		imgChunk(p.Inner, 1+(p.W-1)%16383, 1+(p.H-1)%16383)
		for i := 0; i < p.Trailing; i++ {
			trailer = append(trailer, []byte("EXIF\x04\x00\x00\x00MM\x00\x2a")...)
		}
	}
	tr.Fields = w.fields
	total := int64(len(w.b)) + p.BodyLen + int64(len(trailer))
	PutLE(w.b, riffSizeOff, 4, uint64(total-8))
	tr.Desc = fmt.Sprintf("WebP %s %dx%d ver=%d show=%v scale=%d/%d alpha=%v flags=%#x icc=%v(%d bytes) damage=%q inner=%s alph=%d body=%d",
		p.Kind, p.W, p.H, p.Version, p.ShowFrame, p.XScale, p.YScale, p.Alpha, p.Flags, p.HasICC, len(p.ICC), p.Damage, p.Inner, p.AlphLen, p.BodyLen)
	f := &File{Head: w.b, BodyLen: p.BodyLen, BodyFn: bodyByte, Truth: tr}
	if len(trailer) > 0 {
		tl := trailer
		f.TailLen = int64(len(tl))
		f.TailFn = func() []byte { return tl }
	}
	return f
}
