package refmodel

import "fmt"

// WalkFields derives a field map for arbitrary (seed) files by walking their
// container structure as the specifications define it. Used for BOUNDARY
// delivery, boundary truncation and the stored-byte fault matrix on files the
// generators did not produce.
func WalkFields(b []byte) []Field {
	switch {
	case len(b) >= 8 && string(b[:8]) == string(pngSig):
		return walkPNG(b)
	case len(b) >= 2 && b[0] == 0xFF && b[1] == 0xD8:
		return walkJPEG(b)
	case len(b) >= 12 && string(b[:4]) == "RIFF" && string(b[8:12]) == "WEBP":
		return walkWebP(b)
	case len(b) >= 132 && string(b[36:40]) == "acsp":
		return walkICC(b)
	}
	return nil
}

func walkPNG(b []byte) []Field {
	fs := []Field{{Name: "signature", Off: 0, Width: 8, Kind: "sig"}}
	off := 8
	for i := 0; off+8 <= len(b) && i < 200; i++ {
		n := int(GetBE(b, off, 4))
		typ := string(b[off+4 : off+8])
		tag := fmt.Sprintf("c%d.%s", i, typ)
		fs = append(fs, Field{Name: tag + ".length", Off: off, Width: 4, Kind: "length"},
			Field{Name: tag + ".type", Off: off + 4, Width: 4, Kind: "type"})
		if typ == "IHDR" && off+8+13 <= len(b) {
			fs = append(fs, Field{Name: "IHDR.width", Off: off + 8, Width: 4, Kind: "dim"},
				Field{Name: "IHDR.height", Off: off + 12, Width: 4, Kind: "dim"})
		}
		if off+8+n+4 > len(b) || n < 0 {
			break
		}
		fs = append(fs, Field{Name: tag + ".crc", Off: off + 8 + n, Width: 4, Kind: "crc"})
		off += 12 + n
		if typ == "IEND" {
			break
		}
	}
	return fs
}

func walkJPEG(b []byte) []Field {
	fs := []Field{{Name: "SOI", Off: 0, Width: 2, Kind: "sig"}}
	off := 2
	for i := 0; off+4 <= len(b) && i < 400; i++ {
		if b[off] != 0xFF {
			break
		}
		for off+4 < len(b) && b[off+1] == 0xFF { // fill bytes
			off++
		}
		m := b[off+1]
		tag := fmt.Sprintf("s%d.%02X", i, m)
		fs = append(fs, Field{Name: tag + ".marker", Off: off, Width: 2, Kind: "type"})
		if m == 0xD8 || m == 0xD9 || (m >= 0xD0 && m <= 0xD7) {
			off += 2
			continue
		}
		n := int(GetBE(b, off+2, 2))
		fs = append(fs, Field{Name: tag + ".length", Off: off + 2, Width: 2, Kind: "length"})
		if m == 0xE2 && off+18 <= len(b) && string(b[off+4:off+15]) == "ICC_PROFILE" {
			fs = append(fs, Field{Name: tag + ".num", Off: off + 16, Width: 1, Kind: "count"},
				Field{Name: tag + ".total", Off: off + 17, Width: 1, Kind: "count"})
		}
		if (m == 0xC0 || m == 0xC2) && off+9 <= len(b) {
			fs = append(fs, Field{Name: "SOF.height", Off: off + 5, Width: 2, Kind: "dim"},
				Field{Name: "SOF.width", Off: off + 7, Width: 2, Kind: "dim"})
		}
		if m == 0xDA {
			break
		}
		if n < 2 || off+2+n > len(b) {
			break
		}
		off += 2 + n
	}
	return fs
}

func walkWebP(b []byte) []Field {
	fs := []Field{{Name: "RIFF", Off: 0, Width: 4, Kind: "sig"},
		{Name: "RIFF.size", Off: 4, Width: 4, Kind: "length", LE: true},
		{Name: "WEBP", Off: 8, Width: 4, Kind: "sig"}}
	off := 12
	for i := 0; off+8 <= len(b) && i < 50; i++ {
		typ := string(b[off : off+4])
		n := int(GetLE(b, off+4, 4))
		tag := fmt.Sprintf("c%d.%s", i, typ)
		fs = append(fs, Field{Name: tag + ".type", Off: off, Width: 4, Kind: "type"},
			Field{Name: tag + ".length", Off: off + 4, Width: 4, Kind: "length", LE: true})
		if typ == "VP8X" {
			fs = append(fs, Field{Name: "VP8X.flags", Off: off + 8, Width: 1, Kind: "flag"})
		}
		if n < 0 || off+8+n > len(b) {
			break
		}
		off += 8 + n + n%2
	}
	return fs
}

func walkICC(b []byte) []Field {
	fs := []Field{{Name: "header.size", Off: 0, Width: 4, Kind: "length"},
		{Name: "header.profileID", Off: 84, Width: 16, Kind: "data"},
		{Name: "tagCount", Off: 128, Width: 4, Kind: "count"}}
	n := int(GetBE(b, 128, 4))
	for i := 0; i < n && i < 100 && 132+12*(i+1) <= len(b); i++ {
		o := 132 + 12*i
		tag := fmt.Sprintf("tag%d", i)
		fs = append(fs, Field{Name: tag + ".sig", Off: o, Width: 4, Kind: "type"},
			Field{Name: tag + ".offset", Off: o + 4, Width: 4, Kind: "offset"},
			Field{Name: tag + ".size", Off: o + 8, Width: 4, Kind: "length"})
		if string(b[o:o+4]) == "desc" {
			d := int(GetBE(b, o+4, 4))
			if d+16 <= len(b) {
				fs = append(fs, Field{Name: "desc.type", Off: d, Width: 4, Kind: "type"},
					Field{Name: "desc.count", Off: d + 8, Width: 4, Kind: "count"},
					Field{Name: "desc.recsize", Off: d + 12, Width: 4, Kind: "length"})
				if string(b[d:d+4]) == "mluc" && d+28 <= len(b) {
					fs = append(fs, Field{Name: "mluc.rec0.length", Off: d + 20, Width: 4, Kind: "length"},
						Field{Name: "mluc.rec0.offset", Off: d + 24, Width: 4, Kind: "offset"})
				}
			}
		}
	}
	return fs
}
