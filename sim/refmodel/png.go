package refmodel

import (
	"bytes"
	"compress/zlib"
	"fmt"
	"hash/crc32"
	"io"

	"verif.local/sim/tape"
)

var pngSig = []byte{0x89, 'P', 'N', 'G', 0x0D, 0x0A, 0x1A, 0x0A}

type PNGChunk struct {
	Type string
	Data []byte
}

// PNGParams describes one well-formed PNG (plus optional iCCP damage).
type PNGParams struct {
	W, H      uint32
	BitDepth  byte
	ColorType byte
	Interlace byte
	Pre       []PNGChunk // ancillary chunks between IHDR and iCCP
	HasICC    bool
	ICCName   []byte
	ICC       []byte
	Level     int    // zlib level -2..9
	Damage    string // "", "bitflip", "adler", "cutstream", "zlib-header"
	DamageArg uint32
	Post      []PNGChunk // chunks between iCCP and IDAT (PLTE etc.)
	BodyLen   int64      // first IDAT payload (lazily generated)
	ExtraIDAT int        // further small IDAT chunks
}

var pngDepths = [][2]byte{
	{0, 1}, {0, 2}, {0, 4}, {0, 8}, {0, 16},
	{2, 8}, {2, 16},
	{3, 1}, {3, 2}, {3, 4}, {3, 8},
	{4, 8}, {4, 16},
	{6, 8}, {6, 16},
}

// PNGDepthPairs lists every legal (colour type, bit depth) pair.
func PNGDepthPairs() [][2]byte { return pngDepths }

func latin1Name(r *tape.Rand, n int) []byte {
	out := make([]byte, n)
	for i := range out {
		// printable Latin-1: 0x20-0x7E and 0xA1-0xFF; no leading/trailing space
		for {
			c := byte(0x21 + r.Intn(0x7E-0x21+1))
			if r.Intn(5) == 0 {
				c = byte(0xA1 + r.Intn(0xFF-0xA1+1))
			}
			out[i] = c
			break
		}
	}
	return out
}

func drawDim31(t *tape.Tape) uint32 {
	switch t.Pick(4, 2, 2, 2, 2) {
	case 0:
		return uint32(1 + t.Intn(4096))
	case 1:
		return uint32(1) << uint(t.Intn(31))
	case 2:
		b := uint32(1) << uint(1+t.Intn(30))
		if t.Bool() {
			return b - 1
		}
		return b + 1
	case 3:
		return [...]uint32{1, 2, 255, 256, 257, 65535, 65536, 65537, 1<<24 - 1, 1 << 24, 1<<31 - 1, 0x7F7F7F7F, 0x01020304}[t.Intn(13)]
	default:
		v := t.U32() & 0x7FFFFFFF
		if v == 0 {
			v = 1
		}
		return v
	}
}

func drawAncillary(t *tape.Tape, allowSRGB bool) PNGChunk {
	r := t.Sub()
	rnd := func(n int) []byte { b := make([]byte, n); r.Fill(b); return b }
	kinds := 10
	k := t.Intn(kinds)
	switch k {
	case 0:
		return PNGChunk{"gAMA", []byte{0, 0, 0xB1, 0x8F}}
	case 1:
		return PNGChunk{"cHRM", rnd(32)}
	case 2:
		return PNGChunk{"pHYs", append(rnd(8), 1)}
	case 3:
		return PNGChunk{"tIME", []byte{0x07, 0xE4, 2, 29, 23, 59, 60}}
	case 4:
		txt := append([]byte("Comment\x00"), rnd(r.Intn(200))...)
		return PNGChunk{"tEXt", txt}
	case 5:
		var z bytes.Buffer
		zw := zlib.NewWriter(&z)
		zw.Write(rnd(r.Intn(300)))
		zw.Close()
		return PNGChunk{"zTXt", append([]byte("Title\x00\x00"), z.Bytes()...)}
	case 6:
		return PNGChunk{"iTXt", append([]byte("Author\x00\x00\x00en\x00\x00"), rnd(r.Intn(100))...)}
	case 7:
		// private ancillary chunk, sometimes large (several buffer fills)
		n := r.Intn(300)
		switch r.Intn(6) {
		case 0:
			n = 4000 + r.Intn(200)
		case 1:
			n = 8190 + r.Intn(5)
		case 2:
			n = 70000 + r.Intn(100)
		}
		return PNGChunk{"prVt", rnd(n)}
	case 8:
		if allowSRGB {
			return PNGChunk{"sRGB", []byte{byte(r.Intn(4))}}
		}
		return PNGChunk{"vpAg", rnd(9)}
	default:
		// a chunk whose payload contains chunk-like text, to tempt a scanner
		return PNGChunk{"teSt", []byte("IDAT\x00\x00\x00\x05iCCPIENDIHDR")}
	}
}

// ICCPayload draws profile bytes: a real generated profile, incompressible
// noise or compressible filler, of a drawn size class.
func ICCPayload(t *tape.Tape, sizes []int) []byte {
	kind := t.Pick(3, 3, 2)
	if kind == 0 {
		p := DrawICC(t, ICCOpts{})
		return p.Bytes
	}
	n := sizes[t.Intn(len(sizes))]
	if n <= 0 {
		n = 1
	}
	r := t.Sub()
	out := make([]byte, n)
	if kind == 1 {
		r.Fill(out)
	} else {
		pat := make([]byte, 1+r.Intn(40))
		r.Fill(pat)
		for i := range out {
			out[i] = pat[i%len(pat)]
		}
	}
	return out
}

// DrawPNG draws PNG parameters. iccSizes nil => payload sizes from a default
// list; withICC: 0 = drawn, 1 = force present, 2 = force absent.
func DrawPNG(t *tape.Tape, withICC int, iccSizes []int, allowDamage bool) PNGParams {
	var p PNGParams
	p.W = drawDim31(t)
	p.H = drawDim31(t)
	dp := pngDepths[t.Intn(len(pngDepths))]
	p.ColorType, p.BitDepth = dp[0], dp[1]
	p.Interlace = byte(t.Intn(2))
	has := withICC == 1 || (withICC == 0 && t.Bool())
	npre := t.Pick(5, 3, 2, 1, 1)
	for i := 0; i < npre; i++ {
		p.Pre = append(p.Pre, drawAncillary(t, !has))
	}
	if has {
		p.HasICC = true
		nl := 1
		switch t.Pick(3, 1, 1, 1) {
		case 0:
			nl = 1 + t.Intn(20)
		case 1:
			nl = 79
		case 2:
			nl = 78
		case 3:
			nl = 1 + t.Intn(79)
		}
		p.ICCName = latin1Name(t.Sub(), nl)
		if iccSizes == nil {
			iccSizes = []int{1, 2, 127, 128, 500, 3000, 4095, 4096, 4097, 8191, 8192, 20000, 70000}
		}
		p.ICC = ICCPayload(t, iccSizes)
		p.Level = t.Intn(12) - 2
		if allowDamage && t.Chance(1, 4) {
			p.Damage = [...]string{"bitflip", "adler", "cutstream", "zlib-header"}[t.Intn(4)]
			p.DamageArg = t.U32()
		}
	}
	npost := t.Pick(5, 3, 2, 1)
	if p.ColorType == 3 {
		n := 1 + t.Intn(1<<p.BitDepth)
		pl := make([]byte, 3*n)
		t.Sub().Fill(pl)
		p.Post = append(p.Post, PNGChunk{"PLTE", pl})
		if t.Bool() {
			tr := make([]byte, 1+t.Intn(n))
			p.Post = append(p.Post, PNGChunk{"tRNS", tr})
		}
	}
	for i := 0; i < npost; i++ {
		p.Post = append(p.Post, drawAncillary(t, false))
	}
	switch t.Pick(2, 4, 2) {
	case 1:
		p.BodyLen = int64(1 + t.Intn(3000))
	case 2:
		p.BodyLen = int64(4000 + t.Intn(6000))
	}
	p.ExtraIDAT = t.Intn(3)
	return p
}

func pngChunk(w *builder, typ string, data []byte, tag string) {
	w.mark(tag+".length", 4, "length")
	w.u32be(uint32(len(data)))
	w.mark(tag+".type", 4, "type")
	w.str(typ)
	w.bytes(data)
	w.mark(tag+".crc", 4, "crc")
	c := crc32.NewIEEE()
	c.Write([]byte(typ))
	c.Write(data)
	w.u32be(c.Sum32())
}

// Inflate is the reference zlib decoder used to decide what a (possibly
// damaged) iCCP stream holds.
func Inflate(z []byte) ([]byte, bool) {
	zr, err := zlib.NewReader(bytes.NewReader(z))
	if err != nil {
		return nil, false
	}
	out, err := io.ReadAll(zr)
	if err != nil {
		return nil, false
	}
	return out, true
}

// BuildPNG renders the parameters.
func BuildPNG(p PNGParams) *File {
	w := &builder{}
	w.mark("signature", 8, "sig")
	w.bytes(pngSig)
	ih := &builder{}
	ih.u32be(p.W)
	ih.u32be(p.H)
	ih.u8(p.BitDepth)
	ih.u8(p.ColorType)
	ih.u8(0)
	ih.u8(0)
	ih.u8(p.Interlace)
	base := w.off()
	pngChunk(w, "IHDR", ih.b, "IHDR")
	w.fields = append(w.fields,
		Field{Name: "IHDR.width", Off: base + 8, Width: 4, Kind: "dim"},
		Field{Name: "IHDR.height", Off: base + 12, Width: 4, Kind: "dim"},
		Field{Name: "IHDR.bitdepth", Off: base + 16, Width: 1, Kind: "dim"})
	for i, c := range p.Pre {
		pngChunk(w, c.Type, c.Data, fmt.Sprintf("pre%d.%s", i, c.Type))
	}
	tr := Truth{Format: "PNG", W: p.W, H: p.H, Bits: uint32(p.BitDepth), ICCPayloadOff: -1}
	neededEnd := -1
	if p.HasICC {
		var z bytes.Buffer
		zw, _ := zlib.NewWriterLevel(&z, p.Level)
		zw.Write(p.ICC)
		zw.Close()
		zb := z.Bytes()
		switch p.Damage {
		case "bitflip":
			if len(zb) > 2 {
				i := 2 + int(p.DamageArg>>3)%(len(zb)-2)
				zb[i] ^= 1 << (p.DamageArg & 7)
			}
		case "zlib-header":
			// the two-byte zlib header itself: wrong compression method, or a
			// check value that does not fit
			if p.DamageArg&1 == 0 {
				zb[0] = zb[0]&0xF0 | byte(1+(p.DamageArg>>1)%7) // CM != 8
			} else {
				zb[1] ^= byte(1 + (p.DamageArg>>1)%31) // FCHECK off
			}
		case "adler":
			zb[len(zb)-1-int(p.DamageArg%4)] ^= byte(1 + (p.DamageArg>>2)%255)
		case "cutstream":
			cut := 1 + int(p.DamageArg)%(len(zb)-1)
			zb = zb[:len(zb)-cut]
		}
		data := append(append(append([]byte{}, p.ICCName...), 0, 0), zb...)
		start := w.off()
		pngChunk(w, "iCCP", data, "iCCP")
		tr.ICCPayloadOff = start + 8 + len(p.ICCName) + 2
		tr.ICCPayloadEnd = tr.ICCPayloadOff + len(zb)
		w.fields = append(w.fields, Field{Name: "iCCP.data", Off: tr.ICCPayloadOff, Width: len(zb), Kind: "data"})
		neededEnd = w.off()
		if p.Damage == "" {
			tr.ICCState = ICCPresent
			tr.ICC = p.ICC
		} else if got, ok := Inflate(zb); ok {
			// the damage happened to leave a stream the reference decoder accepts
			tr.ICCState = ICCPresent
			tr.ICC = got
			tr.Damage = p.Damage + "(harmless)"
		} else {
			tr.ICCState = ICCDamaged
			tr.Damage = p.Damage
		}
		tr.ICCChunks = 1
	}
	for i, c := range p.Post {
		pngChunk(w, c.Type, c.Data, fmt.Sprintf("post%d.%s", i, c.Type))
	}
	w.mark("IDAT.length", 4, "length")
	w.u32be(uint32(p.BodyLen))
	w.mark("IDAT.type", 4, "type")
	w.str("IDAT")
	if neededEnd < 0 || tr.ICCState == ICCDamaged {
		neededEnd = w.off()
	}
	tr.NeededEnd = neededEnd
	tr.Fields = w.fields
	tr.Desc = fmt.Sprintf("PNG %dx%d ct=%d depth=%d il=%d pre=%d post=%d icc=%v(name %d, %d bytes, level %d, damage %q) idat=%d+%d",
		p.W, p.H, p.ColorType, p.BitDepth, p.Interlace, len(p.Pre), len(p.Post), p.HasICC, len(p.ICCName), len(p.ICC), p.Level, tr.Damage, p.BodyLen, p.ExtraIDAT)
	f := &File{Head: w.b, BodyLen: p.BodyLen, BodyFn: bodyByte, Truth: tr}
	bodyLen := p.BodyLen
	extra := p.ExtraIDAT
	tail := func() []byte {
		c := crc32.NewIEEE()
		c.Write([]byte("IDAT"))
		buf := make([]byte, 65536)
		for off := int64(0); off < bodyLen; {
			n := int64(len(buf))
			if bodyLen-off < n {
				n = bodyLen - off
			}
			for i := int64(0); i < n; i++ {
				buf[i] = bodyByte(off + i)
			}
			c.Write(buf[:n])
			off += n
		}
		tw := &builder{}
		tw.u32be(c.Sum32())
		for i := 0; i < extra; i++ {
			pngChunk(tw, "IDAT", []byte{byte(i), 1, 2, 3, 4, 5, 6}, "x")
		}
		pngChunk(tw, "IEND", nil, "IEND")
		return tw.b
	}
	f.TailFn = tail
	f.TailLen = int64(4 + extra*(12+7) + 12)
	return f
}
