package refmodel

import (
	"fmt"
	"sort"
	"unicode/utf16"

	"verif.local/sim/tape"
)

// ICCOpts steers the ICC generator.
type ICCOpts struct {
	DescKind  int // 0 drawn, 1 v2 textDescription, 2 mluc, 3 no desc tag
	MaxTags   int // 0 => 64
	BigText   bool
	RawHeader []byte // when 128 bytes long, used verbatim (size field still patched unless KeepSize)
	KeepSize  bool
}

// MLUCRecord is one record of a generated multiLocalizedUnicodeType.
type MLUCRecord struct {
	Lang, Country [2]byte
	Text          string
	Off, Len      uint32 // relative to the tag start, in bytes
}

// ICCProfile is a generated profile and its ground truth.
type ICCProfile struct {
	Bytes      []byte
	Fields     []Field
	NTags      int
	HasDesc    bool
	DescKind   string // "v2" | "mluc" | "none"
	Acceptable []string
	Records    []MLUCRecord
	DescOff    int // offset of the desc tag data in the profile
	DescSize   int
	Shared     int // tags sharing a data block with another
	Layout     string
	Summary    string
}

var iccClasses = []string{"scnr", "mntr", "prtr", "link", "spac", "abst", "nmcl"}
var iccSpaces = []string{"XYZ ", "Lab ", "Luv ", "YCbr", "Yxy ", "RGB ", "GRAY", "HSV ", "HLS ", "CMYK", "CMY ", "2CLR", "FCLR"}
var iccPlatforms = []string{"APPL", "MSFT", "SGI ", "SUNW", "\x00\x00\x00\x00"}
var iccTagPool = []string{"cprt", "wtpt", "bkpt", "rXYZ", "gXYZ", "bXYZ", "rTRC", "gTRC", "bTRC", "chad", "dmnd", "dmdd",
	"lumi", "A2B0", "A2B1", "A2B2", "B2A0", "B2A1", "B2A2", "gamt", "tech", "vued", "view", "meas", "targ", "calt", "chrm",
	"clro", "clrt", "ciis", "rig0", "rig2", "resp", "pseq", "pre0", "pre1", "pre2", "ncl2", "kTRC", "devs", "crdi", "scrd",
	"scrn", "ps2s", "ps2i", "ps2r", "bfd ", "arts", "meta", "cicp"}

func sig4(s string) uint32 {
	return uint32(s[0])<<24 | uint32(s[1])<<16 | uint32(s[2])<<8 | uint32(s[3])
}

// DrawICCHeader draws a plausible 128-byte header (profile size left zero).
func DrawICCHeader(t *tape.Tape) []byte {
	w := &builder{}
	r := t.Sub()
	w.u32be(0)
	w.str([...]string{"lcms", "ADBE", "appl", "\x00\x00\x00\x00", "KCMS"}[r.Intn(5)])
	w.u8([...]byte{2, 4, 4, 5}[r.Intn(4)])
	w.u8(byte(r.Intn(10))<<4 | byte(r.Intn(10)))
	w.zeros(2)
	w.str(iccClasses[r.Intn(len(iccClasses))])
	w.str(iccSpaces[r.Intn(len(iccSpaces))])
	w.str([...]string{"XYZ ", "Lab "}[r.Intn(2)])
	w.u16be(uint16(1990 + r.Intn(60)))
	w.u16be(uint16(1 + r.Intn(12)))
	w.u16be(uint16(1 + r.Intn(28)))
	w.u16be(uint16(r.Intn(24)))
	w.u16be(uint16(r.Intn(60)))
	w.u16be(uint16(r.Intn(60)))
	w.str("acsp")
	w.str(iccPlatforms[r.Intn(len(iccPlatforms))])
	w.u32be(uint32(r.Intn(4)))
	w.u32be(uint32(r.Uint64()))
	w.u32be(uint32(r.Uint64()))
	w.u32be(uint32(r.Intn(16)))
	w.u32be(uint32(r.Uint64()))
	w.u32be(uint32(r.Intn(4)))
	w.u32be(0x0000F6D6)
	w.u32be(0x00010000)
	w.u32be(0x0000D32D)
	w.str([...]string{"lcms", "ADBE", "appl", "HP  "}[r.Intn(4)])
	id := make([]byte, 16)
	if r.Intn(2) == 0 {
		r.Fill(id)
	}
	w.bytes(id)
	w.zeros(28)
	return w.b
}

func drawRunes(r *tape.Rand, n int, ascii bool) []rune {
	out := make([]rune, n)
	for i := range out {
		switch {
		case ascii:
			out[i] = rune(0x20 + r.Intn(0x5F))
		default:
			switch r.Intn(6) {
			case 0:
				out[i] = rune(0x4E00 + r.Intn(0x5000)) // CJK (BMP)
			case 1:
				out[i] = rune(0x10000 + r.Intn(0xFFFFF)) // needs a surrogate pair
				if out[i] > 0x10FFFF {
					out[i] = 0x1F600
				}
			case 2:
				out[i] = rune(0xA1 + r.Intn(0x500))
			default:
				out[i] = rune(0x20 + r.Intn(0x5F))
			}
		}
	}
	if !ascii && n > 0 && r.Intn(6) == 0 {
		// characters a decoder might be tempted to treat specially: U+FEFF is a
		// legal character of an mluc string (there is no byte-order-mark
		// convention: the encoding is UTF-16BE by definition), as are the
		// noncharacter U+FFFE, zero-width and no-break spaces and separators
		sp := [...]rune{0xFEFF, 0xFEFF, 0xFFFE, 0x200B, 0xA0, 0x2028, 0xFFFD}[r.Intn(7)]
		pos := [...]int{0, 0, n - 1, r.Intn(n)}[r.Intn(4)]
		out[pos] = sp
	}
	return out
}

func utf16be(rs []rune) []byte {
	u := utf16.Encode(rs)
	b := make([]byte, 2*len(u))
	for i, c := range u {
		b[2*i] = byte(c >> 8)
		b[2*i+1] = byte(c)
	}
	return b
}

func descLen(t *tape.Tape, big bool) int {
	switch t.Pick(6, 2, 1, 1, 1) {
	case 0:
		return 1 + t.Intn(40)
	case 1:
		return 40 + t.Intn(300)
	case 2:
		if big {
			return 2000
		}
		return 300 + t.Intn(1700)
	case 3:
		return 0
	default:
		return 1
	}
}

var mlucLangs = []string{"de", "fr", "ja", "zh", "es", "it", "nl", "sv", "da", "fi", "pt", "ko", "ru", "pl", "cs", "hu", "tr", "nb", "uk", "hr", "ro", "el", "he", "ar", "th", "vi", "ca", "sk", "sl", "bg"}
var mlucCountries = []string{"US", "GB", "DE", "FR", "JP", "CN", "TW", "ES", "IT", "NL", "SE", "DK", "FI", "BR", "PT", "KR", "RU", "PL", "CA", "AU", "\x00\x00"}

// buildDescV2 renders a textDescriptionType.
func buildDescV2(t *tape.Tape, big bool) ([]byte, string) {
	n := descLen(t, big)
	r := t.Sub()
	rs := drawRunes(r, n, true)
	text := string(rs)
	w := &builder{}
	w.str("desc")
	w.u32be(0)
	w.u32be(uint32(n + 1))
	w.str(text)
	w.u8(0)
	switch t.Pick(3, 2) {
	case 0: // empty Unicode and ScriptCode parts, as most v2 profiles carry
		w.u32be(0)
		w.u32be(0)
		w.u16be(0)
		w.u8(0)
		w.zeros(67)
	case 1: // populated Unicode part
		us := utf16be(drawRunes(r, 1+r.Intn(20), false))
		w.str("enUS")
		w.u32be(uint32(len(us)/2 + 1))
		w.bytes(us)
		w.u16be(0)
		w.u16be(0)
		w.u8(byte(1 + r.Intn(60)))
		w.zeros(67)
	}
	return w.b, text
}

// buildMLUC renders a multiLocalizedUnicodeType.
func buildMLUC(t *tape.Tape, big bool) ([]byte, []MLUCRecord, []string, string) {
	nrec := 1
	switch t.Pick(12, 16, 8, 4, 1) {
	case 1:
		nrec = 2 + t.Intn(5)
	case 2:
		nrec = 7 + t.Intn(20)
	case 3:
		nrec = 40
	case 4:
		nrec = 250 + t.Intn(60) // beyond any 8-bit counter
	}
	r := t.Sub()
	nEn := 0
	switch t.Pick(5, 3, 2) {
	case 0:
		nEn = 1
	case 1:
		nEn = 0
	case 2:
		nEn = 1 + t.Intn(3)
	}
	if nEn > nrec {
		nEn = nrec
	}
	recs := make([]MLUCRecord, nrec)
	used := map[[4]byte]bool{}
	pick := func(lang string) ([2]byte, [2]byte) {
		for {
			c := mlucCountries[r.Intn(len(mlucCountries))]
			l := lang
			if l == "" {
				l = mlucLangs[r.Intn(len(mlucLangs))]
			}
			k := [4]byte{l[0], l[1], c[0], c[1]}
			if !used[k] {
				used[k] = true
				return [2]byte{l[0], l[1]}, [2]byte{c[0], c[1]}
			}
		}
	}
	// positions of the English records among the others
	enAt := map[int]bool{}
	for len(enAt) < nEn {
		enAt[r.Intn(nrec)] = true
	}
	placement := t.Pick(4, 2, 2, 2) // 0 table order, 1 reverse, 2 shared, 3 overlapping
	texts := make([][]rune, nrec)
	for i := range recs {
		if enAt[i] {
			recs[i].Lang, recs[i].Country = pick("en")
		} else {
			recs[i].Lang, recs[i].Country = pick("")
		}
		n := descLen(t, big)
		if nrec > 8 && n > 60 {
			n = 1 + n%60
		}
		texts[i] = drawRunes(r, n, r.Intn(3) == 0)
	}
	w := &builder{}
	w.str("mluc")
	w.u32be(0)
	w.u32be(uint32(nrec))
	w.u32be(12)
	recOff := w.off()
	w.zeros(12 * nrec)
	gap := 0
	if t.Chance(1, 4) {
		gap = 2 * (1 + t.Intn(4))
	}
	w.zeros(gap)
	layout := [...]string{"table-order", "reverse", "shared", "overlapping"}[placement]
	switch placement {
	case 0, 1:
		order := make([]int, nrec)
		for i := range order {
			order[i] = i
			if placement == 1 {
				order[i] = nrec - 1 - i
			}
		}
		for _, i := range order {
			b := utf16be(texts[i])
			recs[i].Off, recs[i].Len = uint32(w.off()), uint32(len(b))
			recs[i].Text = string(texts[i])
			w.bytes(b)
		}
	case 2:
		b := utf16be(texts[0])
		for i := range recs {
			recs[i].Off, recs[i].Len = uint32(w.off()), uint32(len(b))
			recs[i].Text = string(texts[0])
		}
		w.bytes(b)
	case 3:
		// one pool of characters; every record names a character-aligned window of it
		pool := drawRunes(r, 8+r.Intn(60), false)
		starts := make([]int, len(pool)+1) // byte offset of each rune in the UTF-16BE pool
		for i, c := range pool {
			starts[i+1] = starts[i] + 2
			if c >= 0x10000 {
				starts[i+1] += 2
			}
		}
		base := w.off()
		w.bytes(utf16be(pool))
		for i := range recs {
			a := r.Intn(len(pool))
			b := a + r.Intn(len(pool)-a+1)
			recs[i].Off, recs[i].Len = uint32(base+starts[a]), uint32(starts[b]-starts[a])
			recs[i].Text = string(pool[a:b])
		}
	}
	for i, rc := range recs {
		o := recOff + 12*i
		w.b[o], w.b[o+1], w.b[o+2], w.b[o+3] = rc.Lang[0], rc.Lang[1], rc.Country[0], rc.Country[1]
		PutBE(w.b, o+4, 4, uint64(rc.Len))
		PutBE(w.b, o+8, 4, uint64(rc.Off))
	}
	// "any placement of the strings": in a sixth of the tags one or two records are
	// re-pointed at a window that lies inside the tag header / record table (or is
	// empty, at any offset up to the end of the tag). The expected text is the
	// UTF-16BE decoding of exactly those bytes; windows containing surrogate code
	// units are reduced to the empty string so that the expectation does not
	// depend on how lone surrogates are replaced.
	if t.Chance(1, 6) {
		k := 1 + t.Intn(2)
		for j := 0; j < k; j++ {
			i := r.Intn(nrec)
			off := 2 * r.Intn((16+12*nrec)/2)
			ln := 2 * r.Intn(1+(16+12*nrec-off)/2)
			if r.Intn(3) == 0 {
				off, ln = r.Intn(len(w.b)+1), 0
			}
			o := recOff + 12*i
			PutBE(w.b, o+4, 4, uint64(ln))
			PutBE(w.b, o+8, 4, uint64(off))
			// the window may cover the fields just written: decode after patching
			recs[i].Off, recs[i].Len = uint32(off), uint32(ln)
		}
		for i := range recs {
			win := w.b[recs[i].Off : recs[i].Off+recs[i].Len]
			if int(recs[i].Off) >= 16+12*nrec+gap && recs[i].Len > 0 {
				continue // ordinary string behind the table: text already known
			}
			u := make([]uint16, len(win)/2)
			bad := false
			for q := range u {
				u[q] = uint16(win[2*q])<<8 | uint16(win[2*q+1])
				if u[q] >= 0xD800 && u[q] <= 0xDFFF {
					bad = true
				}
			}
			if bad {
				o := recOff + 12*i
				PutBE(w.b, o+4, 4, 0)
				recs[i].Len = 0
				u = nil
			}
			recs[i].Text = string(utf16.Decode(u))
		}
		layout += "+windows-inside-table"
	}
	var acc []string
	for _, rc := range recs {
		if rc.Lang == [2]byte{'e', 'n'} {
			acc = append(acc, rc.Text)
		}
	}
	if len(acc) == 0 {
		for _, rc := range recs {
			acc = append(acc, rc.Text)
		}
	}
	return w.b, recs, acc, fmt.Sprintf("%d records (%d en), strings %s, gap %d", nrec, nEn, layout, gap)
}

// DrawICC draws and renders a well-formed profile.
func DrawICC(t *tape.Tape, o ICCOpts) *ICCProfile {
	p := &ICCProfile{}
	var hdr []byte
	if len(o.RawHeader) == 128 {
		hdr = append([]byte{}, o.RawHeader...)
	} else {
		hdr = DrawICCHeader(t)
	}
	maxTags := o.MaxTags
	if maxTags <= 0 {
		maxTags = 64
	}
	dk := o.DescKind
	if dk == 0 {
		dk = 1 + t.Pick(4, 5, 1)
	}
	nOther := 0
	switch t.Pick(12, 16, 8, 4, 1) {
	case 0:
		nOther = 0
	case 1:
		nOther = 1 + t.Intn(9)
	case 2:
		nOther = 10 + t.Intn(20)
	case 3:
		nOther = maxTags - 1
	case 4:
		nOther = maxTags - 1
		if o.MaxTags <= 0 {
			// a tag table beyond any 8-bit counter (private signatures fill up
			// the pool of registered ones)
			nOther = 250 + t.Intn(60)
			maxTags = nOther + 2
		}
	}
	if nOther > maxTags-1 {
		nOther = maxTags - 1
	}
	r := t.Sub()
	type tagT struct {
		sig   uint32
		block int
	}
	type blockT struct {
		data []byte
		off  int
	}
	var tags []tagT
	var blocks []blockT
	// distinct signatures for the other tags
	perm := make([]int, len(iccTagPool))
	for i := range perm {
		perm[i] = i
	}
	for i := len(perm) - 1; i > 0; i-- {
		j := r.Intn(i + 1)
		perm[i], perm[j] = perm[j], perm[i]
	}
	for i := 0; i < nOther; i++ {
		var sig uint32
		if i < len(perm) {
			sig = sig4(iccTagPool[perm[i]])
		} else {
			k := i - len(perm)
			const b36 = "0123456789abcdefghijklmnopqrstuvwxyz"
			sig = sig4(string([]byte{'Z', b36[k/1296%36], b36[k/36%36], b36[k%36]}))
		}
		if len(blocks) > 0 && r.Intn(4) == 0 {
			tags = append(tags, tagT{sig, r.Intn(len(blocks))})
			p.Shared++
			continue
		}
		n := 4 * r.Intn(12)
		switch r.Intn(8) {
		case 0:
			n = r.Intn(50)
		case 1:
			n = 200 + r.Intn(3000)
		}
		d := make([]byte, n)
		r.Fill(d)
		if n >= 8 {
			copy(d, "XYZ \x00\x00\x00\x00")
		}
		blocks = append(blocks, blockT{data: d})
		tags = append(tags, tagT{sig, len(blocks) - 1})
	}
	descBlock := -1
	switch dk {
	case 1:
		d, text := buildDescV2(t, o.BigText)
		blocks = append(blocks, blockT{data: d})
		descBlock = len(blocks) - 1
		p.HasDesc, p.DescKind, p.Acceptable = true, "v2", []string{text}
		p.Layout = "textDescription"
	case 2:
		d, recs, acc, lay := buildMLUC(t, o.BigText)
		blocks = append(blocks, blockT{data: d})
		descBlock = len(blocks) - 1
		p.HasDesc, p.DescKind, p.Acceptable, p.Records, p.Layout = true, "mluc", acc, recs, lay
	default:
		p.DescKind = "none"
	}
	if descBlock >= 0 {
		// the desc entry goes at a drawn position of the table; occasionally another
		// tag shares its block
		pos := r.Intn(len(tags) + 1)
		tags = append(tags, tagT{})
		copy(tags[pos+1:], tags[pos:])
		tags[pos] = tagT{sig4("desc"), descBlock}
		if len(tags) < maxTags && r.Intn(6) == 0 {
			tags = append(tags, tagT{sig4("dscm"), descBlock})
			p.Shared++
		}
	}
	p.NTags = len(tags)
	// lay the blocks out in a drawn order with 0-3 bytes of padding between them
	order := make([]int, len(blocks))
	for i := range order {
		order[i] = i
	}
	switch t.Pick(3, 2, 3) {
	case 1:
		for i := range order {
			order[i] = len(blocks) - 1 - i
		}
	case 2:
		for i := len(order) - 1; i > 0; i-- {
			j := r.Intn(i + 1)
			order[i], order[j] = order[j], order[i]
		}
	}
	padMode := t.Pick(3, 2, 1) // 0: align to 4, 1: drawn 0-3, 2: none
	w := &builder{}
	w.mark("header", 128, "data")
	w.bytes(hdr)
	w.mark("tagCount", 4, "count")
	w.u32be(uint32(len(tags)))
	tableOff := w.off()
	w.zeros(12 * len(tags))
	pad := func() {
		switch padMode {
		case 0:
			for w.off()%4 != 0 {
				w.u8(0)
			}
		case 1:
			w.zeros(r.Intn(4))
		}
	}
	if t.Chance(1, 5) {
		w.zeros(r.Intn(4)) // gap between table and first block
	}
	for _, bi := range order {
		pad()
		blocks[bi].off = w.off()
		w.bytes(blocks[bi].data)
	}
	if padMode == 0 {
		pad()
	}
	for i, tg := range tags {
		o := tableOff + 12*i
		PutBE(w.b, o, 4, uint64(tg.sig))
		PutBE(w.b, o+4, 4, uint64(blocks[tg.block].off))
		PutBE(w.b, o+8, 4, uint64(len(blocks[tg.block].data)))
		name := fmt.Sprintf("tag%d", i)
		w.fields = append(w.fields,
			Field{Name: name + ".sig", Off: o, Width: 4, Kind: "type"},
			Field{Name: name + ".offset", Off: o + 4, Width: 4, Kind: "offset"},
			Field{Name: name + ".size", Off: o + 8, Width: 4, Kind: "length"})
	}
	if descBlock >= 0 {
		p.DescOff, p.DescSize = blocks[descBlock].off, len(blocks[descBlock].data)
		d := p.DescOff
		w.fields = append(w.fields, Field{Name: "desc.type", Off: d, Width: 4, Kind: "type"})
		if p.DescKind == "v2" {
			w.fields = append(w.fields, Field{Name: "desc.asciiCount", Off: d + 8, Width: 4, Kind: "count"})
		} else {
			w.fields = append(w.fields,
				Field{Name: "mluc.recordCount", Off: d + 8, Width: 4, Kind: "count"},
				Field{Name: "mluc.recordSize", Off: d + 12, Width: 4, Kind: "length"})
			for i := range p.Records {
				if i >= 6 {
					break
				}
				w.fields = append(w.fields,
					Field{Name: fmt.Sprintf("mluc.rec%d.length", i), Off: d + 16 + 12*i + 4, Width: 4, Kind: "length"},
					Field{Name: fmt.Sprintf("mluc.rec%d.offset", i), Off: d + 16 + 12*i + 8, Width: 4, Kind: "offset"})
			}
		}
	}
	if !o.KeepSize {
		PutBE(w.b, 0, 4, uint64(len(w.b)))
	}
	w.fields = append(w.fields, Field{Name: "header.size", Off: 0, Width: 4, Kind: "length"},
		Field{Name: "header.profileID", Off: 84, Width: 16, Kind: "data"})
	p.Bytes = w.b
	sort.Slice(w.fields, func(i, j int) bool { return w.fields[i].Off < w.fields[j].Off })
	p.Fields = w.fields
	p.Summary = fmt.Sprintf("ICC %d bytes, %d tags (%d sharing), blocks order %d pad %d, desc=%s %s",
		len(p.Bytes), p.NTags, p.Shared, order, padMode, p.DescKind, p.Layout)
	if len(p.Summary) > 300 {
		p.Summary = fmt.Sprintf("ICC %d bytes, %d tags (%d sharing), pad %d, desc=%s %s", len(p.Bytes), p.NTags, p.Shared, padMode, p.DescKind, p.Layout)
	}
	return p
}

// BuildMLUCFanIn renders a syntactically valid profile whose description is a
// multiLocalizedUnicodeType with nrec records that all name the same string of
// strBytes bytes (sharing strings between records is allowed by ICC.1 and
// common in vendor profiles). Used as an amplification workload: the input is
// 168+12*nrec+strBytes bytes, yet a reader that materialises every record
// handles nrec*strBytes bytes.
func BuildMLUCFanIn(nrec, strBytes int) *ICCProfile { return BuildMLUCFanInFill(nrec, strBytes, 0) }

// BuildMLUCFanInFill is BuildMLUCFanIn with a chosen content of the shared
// block: 0 letters, 1 all zero bytes, 2 all 0xFF, 3 pseudo-random (work that
// depends on the content - trimming, scanning for terminators - is amplified
// differently by each).
func BuildMLUCFanInFill(nrec, strBytes, fill int) *ICCProfile {
	hdr := DrawICCHeader(tape.New(7, nil))
	w := &builder{}
	w.bytes(hdr)
	w.u32be(1)
	w.str("desc")
	w.u32be(144)
	tagSize := 16 + 12*nrec + strBytes
	w.u32be(uint32(tagSize))
	w.str("mluc")
	w.u32be(0)
	w.u32be(uint32(nrec))
	w.u32be(12)
	for i := 0; i < nrec; i++ {
		w.u8(byte('a' + i%26))
		w.u8(byte('a' + (i/26)%26))
		w.u8(byte('A' + (i/676)%26))
		w.u8(byte('A' + (i/17576)%26))
		w.u32be(uint32(strBytes))
		w.u32be(uint32(16 + 12*nrec))
	}
	rnd := tape.NewRand(uint64(nrec*31 + strBytes))
	for i := 0; i < strBytes; i += 2 {
		switch fill {
		case 1:
			w.u8(0)
			w.u8(0)
		case 2:
			w.u8(0xFF)
			w.u8(0xFF)
		case 3:
			w.u8(byte(rnd.Intn(0xD8))) // stays clear of surrogates
			w.u8(byte(rnd.Intn(256)))
		default:
			w.u8(0)
			w.u8(byte('A' + (i/2)%26))
		}
	}
	if len(w.b) > 144+tagSize {
		w.b = w.b[:144+tagSize]
	}
	PutBE(w.b, 0, 4, uint64(len(w.b)))
	return &ICCProfile{Bytes: w.b, NTags: 1, HasDesc: true, DescKind: "mluc", DescOff: 144, DescSize: tagSize,
		Fields:  []Field{{Name: "mluc.recordCount", Off: 152, Width: 4, Kind: "count"}},
		Summary: fmt.Sprintf("ICC %d bytes, mluc fan-in: %d records sharing one %d-byte string (fill %d)", len(w.b), nrec, strBytes, fill)}
}

// BuildTagFanIn renders a syntactically valid profile with ntags distinct tag
// signatures that all declare the same (whole) tag data area of areaBytes bytes
// - ICC.1 allows tags to share data. A reader that copies per tag handles
// ntags*areaBytes bytes for a 132+12*ntags+areaBytes byte input.
func BuildTagFanIn(ntags, areaBytes int) *ICCProfile {
	hdr := DrawICCHeader(tape.New(9, nil))
	w := &builder{}
	w.bytes(hdr)
	w.u32be(uint32(ntags))
	dataOff := 132 + 12*ntags
	if areaBytes < 12 {
		areaBytes = 12
	}
	for i := 0; i < ntags; i++ {
		if i == 0 {
			w.str("desc")
		} else {
			w.u8(byte('A' + i%26))
			w.u8(byte('a' + (i/26)%26))
			w.u8(byte('a' + (i/676)%26))
			w.u8(byte('0' + (i/17576)%10))
		}
		w.u32be(uint32(dataOff))
		w.u32be(uint32(areaBytes))
	}
	// the shared area starts as a v2 description so that Description() works
	w.str("desc")
	w.u32be(0)
	w.u32be(3)
	w.str("ok\x00")
	for w.off() < dataOff+areaBytes {
		w.u8(byte(w.off()))
	}
	PutBE(w.b, 0, 4, uint64(len(w.b)))
	return &ICCProfile{Bytes: w.b, NTags: ntags, HasDesc: true, DescKind: "v2", Acceptable: []string{"ok"},
		Fields:  []Field{{Name: "tagCount", Off: 128, Width: 4, Kind: "count"}},
		Summary: fmt.Sprintf("ICC %d bytes, tag fan-in: %d tags sharing one %d-byte data area", len(w.b), ntags, areaBytes)}
}
