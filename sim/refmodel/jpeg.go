package refmodel

import (
	"fmt"

	"verif.local/sim/tape"
)

// JPEGSeg is one marker segment (marker byte after 0xFF, payload without the
// two length bytes).
type JPEGSeg struct {
	Marker  byte
	Payload []byte
	Tag     string
	Fill    int // 0xFF fill bytes in front of the marker (T.81 B.1.1.2: any marker may be preceded by them)
}

type JPEGParams struct {
	Progressive bool
	Precision   byte
	W, H        uint16
	NComp       int
	Sampling    [4][2]byte
	Segs        []JPEGSeg // complete ordered list between SOI and SOS, SOF and ICC chunks included
	ICC         []byte
	NChunks     int
	Damage      string
	BodyLen     int64
	SOSFill     int // fill bytes in front of the SOS marker
}

const jpegICCMax = 65533 - 14 // payload bytes of one APP2 ICC chunk

var iccID = []byte("ICC_PROFILE\x00")

func iccChunkSeg(num, total byte, data []byte) JPEGSeg {
	p := make([]byte, 0, 14+len(data))
	p = append(p, iccID...)
	p = append(p, num, total)
	p = append(p, data...)
	return JPEGSeg{Marker: 0xE2, Payload: p, Tag: fmt.Sprintf("ICC[%d/%d]", num, total)}
}

func drawOtherSeg(t *tape.Tape) JPEGSeg {
	r := t.Sub()
	rnd := func(n int) []byte { b := make([]byte, n); r.Fill(b); return b }
	switch t.Intn(10) {
	case 0:
		return JPEGSeg{0xE0, []byte("JFIF\x00\x01\x02\x00\x00\x01\x00\x01\x00\x00"), "APP0-JFIF", 0}
	case 1:
		return JPEGSeg{0xE1, append([]byte("Exif\x00\x00MM\x00\x2a\x00\x00\x00\x08\x00\x00"), rnd(r.Intn(300))...), "APP1-Exif", 0}
	case 2:
		return JPEGSeg{0xFE, rnd(r.Intn(100)), "COM", 0}
	case 3:
		// APP2 that is not an ICC chunk (e.g. FlashPix), sometimes shorter than the ICC identifier
		if r.Intn(2) == 0 {
			return JPEGSeg{0xE2, []byte("FPXR\x00"), "APP2-short", 0}
		}
		return JPEGSeg{0xE2, append([]byte("ICC_PROFILF\x00\x01\x01"), rnd(40)...), "APP2-notICC", 0}
	case 4:
		m := byte(0xE3 + r.Intn(13))
		n := r.Intn(200)
		switch r.Intn(5) {
		case 0:
			n = 65533
		case 1:
			n = 4090 + r.Intn(12)
		}
		return JPEGSeg{m, rnd(n), fmt.Sprintf("APP%d", m-0xE0), 0}
	case 5:
		q := make([]byte, 65)
		q[0] = byte(r.Intn(4))
		for i := 1; i < 65; i++ {
			q[i] = byte(1 + r.Intn(255))
		}
		return JPEGSeg{0xDB, q, "DQT", 0}
	case 6:
		// minimal valid Huffman table: class/id, 16 counts, symbols
		h := make([]byte, 17)
		h[0] = byte(r.Intn(2)<<4 | r.Intn(2))
		h[2] = 2
		h = append(h, 0, 1)
		return JPEGSeg{0xC4, h, "DHT", 0}
	case 7:
		return JPEGSeg{0xDD, []byte{0, byte(r.Intn(256))}, "DRI", 0}
	case 8:
		return JPEGSeg{0xEE, []byte("Adobe\x00\x64\x00\x00\x00\x00\x01"), "APP14-Adobe", 0}
	default:
		// payload containing marker-like bytes
		return JPEGSeg{0xFE, []byte{0xFF, 0xD8, 0xFF, 0xC0, 0x00, 0x11, 0xFF, 0xDA, 0xFF, 0xD9}, "COM-markers", 0}
	}
}

// SplitICC cuts a profile into n chunk payloads (each 1..jpegICCMax bytes).
func SplitICC(r *tape.Rand, icc []byte, n int, maxFirst bool) [][]byte {
	out := make([][]byte, 0, n)
	rest := icc
	for i := 0; i < n; i++ {
		left := n - i - 1
		// this chunk must leave at least `left` bytes and at most left*max
		lo := len(rest) - left*jpegICCMax
		if lo < 1 {
			lo = 1
		}
		hi := len(rest) - left
		if hi > jpegICCMax {
			hi = jpegICCMax
		}
		k := hi
		if !maxFirst && hi > lo {
			k = lo + r.Intn(hi-lo+1)
		}
		if left == 0 {
			k = len(rest)
		}
		out = append(out, rest[:k])
		rest = rest[k:]
	}
	return out
}

// DrawJPEG draws JPEG parameters. withICC: 0 drawn, 1 present, 2 absent.
// perm, when non-nil, fixes the arrival order of the ICC chunks.
func DrawJPEG(t *tape.Tape, withICC int, iccSizes []int, allowDamage bool, perm []int) JPEGParams {
	var p JPEGParams
	p.Progressive = t.Bool()
	p.Precision = 8
	if t.Chance(1, 8) && p.Progressive {
		p.Precision = 12 // legal for progressive (SOF2), not for baseline
	}
	dim := func() uint16 {
		switch t.Pick(4, 2, 2, 2) {
		case 0:
			return uint16(1 + t.Intn(4096))
		case 1:
			return uint16(1) << uint(t.Intn(16))
		case 2:
			return [...]uint16{1, 255, 256, 257, 0x7FFF, 0x8000, 0xFFFF, 0x0102, 0xFF00, 0x00FF}[t.Intn(10)]
		default:
			return uint16(1 + t.Intn(65535))
		}
	}
	p.W, p.H = dim(), dim()
	p.NComp = [...]int{3, 1, 4}[t.Pick(4, 2, 1)]
	for i := 0; i < p.NComp; i++ {
		p.Sampling[i] = [2]byte{1, 1}
	}
	if p.NComp >= 3 {
		s := [...][2]byte{{1, 1}, {2, 2}, {2, 1}, {1, 2}, {4, 1}, {4, 2}, {3, 3}, {4, 4}}[t.Pick(3, 3, 2, 1, 1, 1, 1, 1)]
		p.Sampling[0] = s
	}
	has := withICC == 1 || (withICC == 0 && t.Bool())
	var iccSegs []JPEGSeg
	sofLast := false // the frame header follows every ICC chunk
	if has {
		if iccSizes == nil {
			iccSizes = []int{1, 2, 128, 500, 3000, 4096, 65518, 65519, 65520, 65521, 2 * 65519, 200000}
		}
		p.ICC = ICCPayload(t, iccSizes)
		minChunks := (len(p.ICC) + jpegICCMax - 1) / jpegICCMax
		n := minChunks
		if perm != nil {
			n = len(perm)
		} else {
			switch t.Pick(5, 2, 1, 1) {
			case 1:
				n = minChunks + 1 + t.Intn(4)
			case 2:
				n = minChunks + t.Intn(40)
			case 3:
				n = 255
			}
		}
		if n > 255 {
			n = 255
		}
		if n > len(p.ICC) {
			n = len(p.ICC)
		}
		if n < minChunks {
			n = minChunks
		}
		p.NChunks = n
		parts := SplitICC(t.Sub(), p.ICC, n, t.Bool())
		order := make([]int, n)
		for i := range order {
			order[i] = i
		}
		if perm != nil && len(perm) == n {
			copy(order, perm)
		} else {
			switch t.Pick(4, 2, 2) {
			case 1: // reversed
				for i := range order {
					order[i] = n - 1 - i
				}
			case 2: // shuffled
				r := t.Sub()
				for i := n - 1; i > 0; i-- {
					j := r.Intn(i + 1)
					order[i], order[j] = order[j], order[i]
				}
			}
		}
		for _, ci := range order {
			iccSegs = append(iccSegs, iccChunkSeg(byte(ci+1), byte(n), parts[ci]))
		}
		if allowDamage && t.Chance(1, 4) {
			kinds := []string{"number-zero", "number-high", "total-zero", "extra-number-zero", "extra-number-high", "extra-total-differs"}
			if n >= 2 {
				kinds = append(kinds, "missing", "missing", "total-differs", "total-differs")
			} else {
				kinds = append(kinds, "total-claims-more")
			}
			p.Damage = kinds[t.Intn(len(kinds))]
			arg := t.Intn(1 << 16)
			switch p.Damage {
			case "missing":
				i := arg % len(iccSegs)
				iccSegs = append(iccSegs[:i:i], iccSegs[i+1:]...)
			case "total-claims-more":
				for i := range iccSegs {
					iccSegs[i].Payload[13] = byte(n + 1 + arg%(255-n))
				}
			case "total-differs":
				// never the first chunk in the stream: which bytes are "the"
				// profile would otherwise be ambiguous
				i := 1 + arg%(len(iccSegs)-1)
				nt := byte(1 + (arg>>8)%255)
				if nt == byte(n) {
					nt = byte(n%255 + 1)
				}
				iccSegs[i].Payload[13] = nt
				iccSegs[i].Tag += "(total!)"
			case "number-zero":
				i := arg % len(iccSegs)
				iccSegs[i].Payload[12] = 0
				iccSegs[i].Tag += "(num=0)"
			case "number-high":
				if n == 255 {
					p.Damage = "number-zero"
					iccSegs[arg%len(iccSegs)].Payload[12] = 0
				} else {
					i := arg % len(iccSegs)
					iccSegs[i].Payload[12] = byte(n + 1 + (arg>>8)%(255-n))
					iccSegs[i].Tag += "(num>total)"
				}
			case "extra-number-zero", "extra-number-high", "extra-total-differs":
				// the complete set plus one more ICC chunk that is damaged on its own
				// (anywhere among the others, also after the set is complete). The
				// frame header follows all of them: a loader has to walk past every
				// one, so the damage cannot go unseen (after the frame header a
				// loader may stop at the complete set, and the answer is ambiguous).
				num, tot := byte(0), byte(n)
				switch p.Damage {
				case "extra-number-high":
					if n == 255 {
						p.Damage = "extra-number-zero"
					} else {
						num = byte(n + 1 + (arg>>8)%(255-n))
					}
				case "extra-total-differs":
					tot = byte(1 + (arg>>8)%255)
					if tot == byte(n) {
						tot = byte(n%255 + 1)
					}
					num = byte(1 + (arg>>4)%int(tot))
				}
				extra := iccChunkSeg(num, tot, p.ICC[:1+arg%min(len(p.ICC), 40)])
				extra.Tag += "(extra)"
				pos := arg % (len(iccSegs) + 1)
				if p.Damage == "extra-total-differs" && pos == 0 {
					pos = 1 // never the first chunk in the stream (see total-differs)
				}
				iccSegs = append(iccSegs[:pos:pos], append([]JPEGSeg{extra}, iccSegs[pos:]...)...)
				sofLast = true
			case "total-zero":
				// a single-chunk profile whose total byte is zero: chunk number 1 is out of range
				iccSegs = iccSegs[:1]
				iccSegs[0].Payload[12] = 1
				iccSegs[0].Payload[13] = 0
				iccSegs[0].Tag += "(total=0)"
			}
		}
	}
	nOther := t.Pick(3, 3, 2, 2, 1, 1)
	var others []JPEGSeg
	for i := 0; i < nOther; i++ {
		others = append(others, drawOtherSeg(t))
	}
	sof := JPEGSeg{Marker: 0xC0, Tag: "SOF0"}
	if p.Progressive {
		sof.Marker, sof.Tag = 0xC2, "SOF2"
	}
	sp := []byte{p.Precision, byte(p.H >> 8), byte(p.H), byte(p.W >> 8), byte(p.W), byte(p.NComp)}
	for i := 0; i < p.NComp; i++ {
		tq := byte(0)
		if i > 0 {
			tq = 1
		}
		sp = append(sp, byte(i+1), p.Sampling[i][0]<<4|p.Sampling[i][1], tq)
	}
	sof.Payload = sp
	// merge the three ordered lists (others, ICC chunks, SOF) at random,
	// keeping each list's own order
	lists := [][]JPEGSeg{others, iccSegs, {sof}}
	if sofLast {
		lists = [][]JPEGSeg{others, append(iccSegs, sof), nil}
	}
	r := t.Sub()
	for {
		rem := 0
		for _, l := range lists {
			rem += len(l)
		}
		if rem == 0 {
			break
		}
		k := r.Intn(rem)
		for i := range lists {
			if k < len(lists[i]) {
				p.Segs = append(p.Segs, lists[i][0])
				lists[i] = lists[i][1:]
				break
			}
			k -= len(lists[i])
		}
	}
	switch t.Pick(2, 4, 2) {
	case 1:
		p.BodyLen = int64(1 + t.Intn(3000))
	case 2:
		p.BodyLen = int64(4000 + t.Intn(6000))
	}
	// fill bytes: one file in six has 0xFF padding in front of some markers
	// (legal in front of any marker; std image/jpeg skips them)
	if t.Chance(1, 6) {
		r := t.Sub()
		for i := range p.Segs {
			if r.Intn(3) == 0 {
				p.Segs[i].Fill = 1 + r.Intn(3)
				p.Segs[i].Tag = "fill+" + p.Segs[i].Tag
			}
		}
		if r.Intn(3) == 0 {
			p.SOSFill = 1 + r.Intn(3)
		}
		if r.Intn(8) == 0 {
			p.Segs[r.Intn(len(p.Segs))].Fill = 5000 // longer than a bufio buffer
		}
	}
	return p
}

// BuildJPEG renders the parameters.
func BuildJPEG(p JPEGParams) *File {
	w := &builder{}
	w.mark("SOI", 2, "sig")
	w.u8(0xFF)
	w.u8(0xD8)
	tr := Truth{Format: "JPEG", W: uint32(p.W), H: uint32(p.H), Bits: uint32(p.Precision), ICCPayloadOff: -1}
	sofEnd, lastICCEnd := -1, -1
	iccSeen := 0
	prevNum := 0
	for i, s := range p.Segs {
		tag := fmt.Sprintf("seg%d.%s", i, s.Tag)
		for k := 0; k < s.Fill; k++ {
			w.u8(0xFF)
		}
		w.mark(tag+".marker", 2, "type")
		w.u8(0xFF)
		w.u8(s.Marker)
		w.mark(tag+".length", 2, "length")
		w.u16be(uint16(len(s.Payload) + 2))
		start := w.off()
		w.bytes(s.Payload)
		isICC := s.Marker == 0xE2 && len(s.Payload) >= 14 && string(s.Payload[:12]) == string(iccID)
		switch {
		case s.Marker == 0xC0 || s.Marker == 0xC2:
			w.fields = append(w.fields,
				Field{Name: "SOF.precision", Off: start, Width: 1, Kind: "dim"},
				Field{Name: "SOF.height", Off: start + 1, Width: 2, Kind: "dim"},
				Field{Name: "SOF.width", Off: start + 3, Width: 2, Kind: "dim"},
				Field{Name: "SOF.ncomp", Off: start + 5, Width: 1, Kind: "count"})
			sofEnd = w.off()
		case isICC:
			w.fields = append(w.fields,
				Field{Name: tag + ".num", Off: start + 12, Width: 1, Kind: "count"},
				Field{Name: tag + ".total", Off: start + 13, Width: 1, Kind: "count"},
				Field{Name: tag + ".data", Off: start + 14, Width: len(s.Payload) - 14, Kind: "data"})
			if tr.ICCPayloadOff < 0 {
				tr.ICCPayloadOff = start + 14
			}
			tr.ICCPayloadEnd = w.off()
			lastICCEnd = w.off()
			iccSeen++
			if int(s.Payload[12]) < prevNum {
				tr.ICCOutOfOrder = true
			}
			prevNum = int(s.Payload[12])
		}
	}
	tr.ICCChunks = iccSeen
	// SOS header: Ns components, then Ss, Se, Ah/Al
	for k := 0; k < p.SOSFill; k++ {
		w.u8(0xFF)
	}
	w.mark("SOS.marker", 2, "type")
	w.u8(0xFF)
	w.u8(0xDA)
	w.mark("SOS.length", 2, "length")
	w.u16be(uint16(6 + 2*p.NComp))
	w.u8(byte(p.NComp))
	for i := 0; i < p.NComp; i++ {
		w.u8(byte(i + 1))
		w.u8(0x00)
	}
	w.u8(0)
	w.u8(63)
	w.u8(0)
	sosEnd := w.off()
	switch {
	case p.ICC != nil && p.Damage == "":
		tr.ICCState = ICCPresent
		tr.ICC = p.ICC
		tr.NeededEnd = sofEnd
		if lastICCEnd > sofEnd {
			tr.NeededEnd = lastICCEnd
		}
	case p.ICC != nil:
		tr.ICCState = ICCDamaged
		tr.Damage = p.Damage
		tr.NeededEnd = sosEnd
	default:
		tr.NeededEnd = sosEnd
	}
	tr.Fields = w.fields
	tags := ""
	for i, s := range p.Segs {
		if i > 0 {
			tags += " "
		}
		if i >= 24 {
			tags += fmt.Sprintf("…(+%d)", len(p.Segs)-i)
			break
		}
		tags += s.Tag
	}
	tr.Desc = fmt.Sprintf("JPEG %dx%d prec=%d nc=%d samp=%v progressive=%v icc=%d bytes in %d chunks damage=%q segs=[%s] body=%d",
		p.W, p.H, p.Precision, p.NComp, p.Sampling[0], p.Progressive, len(p.ICC), p.NChunks, p.Damage, tags, p.BodyLen)
	f := &File{Head: w.b, BodyLen: p.BodyLen, BodyFn: bodyByte, Truth: tr}
	f.TailLen = 2
	f.TailFn = func() []byte { return []byte{0xFF, 0xD9} }
	return f
}
