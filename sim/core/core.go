// Package core holds the types shared by both engines: the per-run statistics,
// the violation record and the interface every simulated check implements.
package core

import "verif.local/sim/tape"

// Violation is one failed run.
type Violation struct {
	Class  string      `json:"class"`
	Sig    string      `json:"sig"` // stable signature used for known-finding matching and de-duplication
	Detail string      `json:"detail"`
	Render interface{} `json:"render,omitempty"`
	// OwnHistory: the run made the earlier calls the violation may depend on
	// itself, so it replays in a fresh process even on a tree that carries state
	// from call to call; such runs are preferred as replay candidates.
	OwnHistory bool `json:"-"`
}

// HarnessError aborts a batch with exit 2 (never a VIOLATION).
type HarnessError struct{ Msg string }

func (h *HarnessError) Error() string { return h.Msg }

// Stats accumulates what a batch of runs covered.
type Stats struct {
	Evals      int64 `json:"evaluations"`
	NonTrivial int64 `json:"nontrivial"`
	Steps      int64 `json:"sim_steps"`
	// CodeSteps counts instrumented statements executed by the code under test
	// where the build carries a step counter; not part of the determinism digest
	// (Go map iteration order inside the code under test may change it)
	CodeSteps   int64                `json:"code_steps"`
	Faults      map[string]*[2]int64 `json:"faults"` // kind -> [configured, fired]
	Probes      map[string]int64     `json:"probes"`
	Distinct    map[uint64]struct{}  `json:"-"`
	DistinctCap bool                 `json:"distinct_capped"`
	Logs        map[uint64]struct{}  `json:"-"`
	Samples     []interface{}        `json:"samples"`
	SampleWant  int                  `json:"-"`
	sampleNext  int64
	Classes     map[string]int64 `json:"workload_classes"`
	// Digest folds whatever a run wants compared by the determinism re-check.
	Digest uint64 `json:"-"`
	// VerdictOrderDependent is set by a run whose verdict on a defective tree may
	// depend on Go's map iteration order inside the code under test (no seam
	// controls it); the determinism re-check then compares everything but the
	// verdict of that run.
	VerdictOrderDependent bool `json:"-"`
}

const distinctCap = 3000000

func NewStats() *Stats {
	return &Stats{Faults: map[string]*[2]int64{}, Probes: map[string]int64{}, Distinct: map[uint64]struct{}{},
		Logs: map[uint64]struct{}{}, Classes: map[string]int64{}, SampleWant: 4, sampleNext: 0}
}

func (s *Stats) Fault(kind string, configured, fired bool) {
	f := s.Faults[kind]
	if f == nil {
		f = &[2]int64{}
		s.Faults[kind] = f
	}
	if configured {
		f[0]++
	}
	if configured && fired { // "fired" means: the configured fault actually happened inside what was consumed
		f[1]++
	}
}
func (s *Stats) Probe(name string, hit bool) {
	if hit {
		s.Probes[name]++
	} else if _, ok := s.Probes[name]; !ok {
		s.Probes[name] = 0
	}
}
func (s *Stats) Class(name string) { s.Classes[name]++ }

// Mark records a non-trivial run with its distinctness key.
func (s *Stats) Mark(key uint64) {
	s.NonTrivial++
	if len(s.Distinct) < distinctCap {
		s.Distinct[key] = struct{}{}
	} else {
		s.DistinctCap = true
	}
}
func (s *Stats) LogHash(h uint64) {
	s.Digest = tape.SplitMix64(s.Digest ^ h)
	if len(s.Logs) < distinctCap {
		s.Logs[h] = struct{}{}
	}
}

// WantSample says whether this run should render itself as a sample
// (geometrically spaced so that samples come from across the batch).
func (s *Stats) WantSample() bool {
	return len(s.Samples) < s.SampleWant && s.Evals >= s.sampleNext
}
func (s *Stats) Sample(v interface{}) {
	s.Samples = append(s.Samples, v)
	s.sampleNext = s.Evals*7 + 50
}

// Prop is one claimed property's simulated check.
type Prop interface {
	ID() string
	Level() string
	// Runs is the number of runs of the tier; Prefix gives the forced leading
	// tape values of run i (nil for a purely seeded run).
	Runs(tier string) int64
	Prefix(tier string, i int64) []uint64
	// Run executes one simulated run. It returns nil when the property held.
	Run(t *tape.Tape, st *Stats) *Violation
	Rule() string
	Exhaustive(tier string) string // "" or a description of the finite set enumerated completely
}
