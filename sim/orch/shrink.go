package orch

import (
	"encoding/json"
	"flag"
	"fmt"
	"os"
	"os/exec"
	"strings"
	"time"

	"verif.local/sim/core"
	"verif.local/sim/tape"
)

func readReplay(path string) ReplayFile {
	b, err := os.ReadFile(path)
	if err != nil {
		fatal2("cannot read replay file %s: %v", path, err)
	}
	var rf ReplayFile
	if err := json.Unmarshal(b, &rf); err != nil {
		fatal2("replay file %s does not parse: %v", path, err)
	}
	return rf
}

// cmdReplay re-executes a replay file: exit 1 when the recorded violation
// (same class and signature) occurs again, 0 when the run holds.
func cmdReplay(args []string) {
	fs := flag.NewFlagSet("replay", flag.ExitOnError)
	file := fs.String("file", "", "")
	verbose := fs.Bool("v", false, "")
	asJSON := fs.Bool("json", false, "")
	fs.Parse(args)
	rf := readReplay(*file)
	p := getProp(rf.Property)
	st := core.NewStats()
	st.SampleWant = 0
	if rf.Class == "hang" {
		// the recorded violation is that the run never returns: give it three
		// times the per-run budget, as the batch did
		go func() {
			time.Sleep(3 * hooks.PerRunTimeout)
			fmt.Printf("REPRODUCED property=%s class=hang: the run has not returned after %v\n", rf.Property, 3*hooks.PerRunTimeout)
			fmt.Printf("VIOLATION property=%s replay=%s\n", rf.Property, *file)
			os.Exit(1)
		}()
	}
	v, herr := executeRun(p, tape.Replay(rf.Tape), st)
	if herr != "" {
		fatal2("replay: %s", herr)
	}
	if v == nil {
		fmt.Printf("NOT-REPRODUCED property=%s: the run held (recorded: %s)\n", rf.Property, rf.Class)
		os.Exit(0)
	}
	if *verbose {
		b, _ := json.MarshalIndent(v, "", " ")
		fmt.Println(string(b))
	}
	if *asJSON {
		b, _ := json.Marshal(v)
		fmt.Println("VJSON " + string(b))
	}
	if v.Class != rf.Class || v.Sig != rf.Sig {
		fmt.Printf("DIFFERENT property=%s recorded class=%s sig=%s, now class=%s sig=%s: %s\n", rf.Property, rf.Class, rf.Sig, v.Class, v.Sig, v.Detail)
		os.Exit(4)
	}
	fmt.Printf("REPRODUCED property=%s class=%s sig=%s: %s\n", rf.Property, v.Class, v.Sig, v.Detail)
	fmt.Printf("VIOLATION property=%s replay=%s\n", rf.Property, *file)
	os.Exit(1)
}

// cmdShrink minimises the tape of a replay file (shortlex: shorter first, then
// smaller values) while the same (class, signature) recurs.
func cmdShrink(args []string) {
	fs := flag.NewFlagSet("shrink", flag.ExitOnError)
	file := fs.String("file", "", "")
	out := fs.String("out", "", "")
	maxExec := fs.Int("max", 600, "")
	budget := fs.Duration("budget", 120*time.Second, "")
	fresh := fs.Bool("fresh", false, "execute every candidate tape in a process of its own")
	fs.Parse(args)
	rf := readReplay(*file)
	p := getProp(rf.Property)
	deadline := time.Now().Add(*budget)
	execs := 0
	var last *core.Violation
	// fresh mode: a tree that carries state from call to call (free lists,
	// caches) makes executions in one process depend on each other - the
	// shrinker would then accept reductions that only hold after its own earlier
	// executions. Every candidate is judged by a replay in a new process instead.
	freshTry := func(vals []uint64) *core.Violation {
		tmp := *out + ".try"
		c := rf
		c.Tape = vals
		writeJSON(tmp, c)
		defer os.Remove(tmp)
		cmd := exec.Command(selfExe(), "replay", "-json", "-file", tmp)
		cmd.Env = os.Environ()
		b, _ := cmd.Output()
		if cmd.ProcessState == nil || cmd.ProcessState.ExitCode() != 1 {
			return nil
		}
		for _, line := range strings.Split(string(b), "\n") {
			if strings.HasPrefix(line, "VJSON ") {
				var v core.Violation
				if json.Unmarshal([]byte(line[6:]), &v) == nil {
					return &v
				}
			}
		}
		return nil
	}
	try := func(vals []uint64) bool {
		if execs >= *maxExec || time.Now().After(deadline) {
			return false
		}
		execs++
		if *fresh {
			v := freshTry(vals)
			if v == nil || v.Class != rf.Class || v.Sig != rf.Sig {
				return false
			}
			last = v
			return true
		}
		st := core.NewStats()
		st.SampleWant = 0
		v, herr := executeRun(p, tape.Replay(vals), st)
		if herr != "" || v == nil || v.Class != rf.Class || v.Sig != rf.Sig {
			return false
		}
		last = v
		return true
	}
	cur := append([]uint64{}, rf.Tape...)
	if !try(cur) {
		fatal2("shrink: the recorded tape does not reproduce %s/%s in-process", rf.Class, rf.Sig)
	}
	// strip trailing zeros: an exhausted tape reads as zeros anyway
	strip := func(v []uint64) []uint64 {
		for len(v) > 0 && v[len(v)-1] == 0 {
			v = v[:len(v)-1]
		}
		return v
	}
	cur = strip(cur)
	improved := true
	for improved && execs < *maxExec && time.Now().Before(deadline) {
		improved = false
		// 1. cut the tail
		for n := len(cur) / 2; n >= 1; n /= 2 {
			for len(cur) > n {
				c := append([]uint64{}, cur[:len(cur)-n]...)
				if try(c) {
					cur, improved = strip(c), true
				} else {
					break
				}
			}
		}
		// 2. zero blocks, then 3. delete blocks
		for _, bs := range []int{8, 4, 2, 1} {
			for i := 0; i+bs <= len(cur); i++ {
				allZero := true
				for _, x := range cur[i : i+bs] {
					if x != 0 {
						allZero = false
					}
				}
				if allZero {
					continue
				}
				c := append([]uint64{}, cur...)
				for j := i; j < i+bs; j++ {
					c[j] = 0
				}
				if try(c) {
					cur, improved = strip(c), true
				}
			}
		}
		for _, bs := range []int{4, 2, 1} {
			for i := 0; i+bs <= len(cur); i++ {
				c := append(append([]uint64{}, cur[:i]...), cur[i+bs:]...)
				if try(c) {
					cur, improved = strip(c), true
					i--
				}
			}
		}
		// 4. lower single values by binary search
		for i := 0; i < len(cur); i++ {
			if cur[i] == 0 {
				continue
			}
			lo, hi := uint64(0), cur[i] // invariant: hi reproduces
			for lo < hi {
				mid := lo + (hi-lo)/2
				c := append([]uint64{}, cur...)
				c[i] = mid
				if try(c) {
					hi = mid
					cur = c
					improved = true
				} else {
					lo = mid + 1
				}
				if execs >= *maxExec || time.Now().After(deadline) {
					break
				}
			}
		}
		cur = strip(cur)
	}
	// final execution to take detail and rendering from the minimal tape
	try2 := func() {
		if *fresh {
			return
		}
		st := core.NewStats()
		st.SampleWant = 0
		if v, herr := executeRun(p, tape.Replay(cur), st); herr == "" && v != nil && v.Class == rf.Class && v.Sig == rf.Sig {
			last = v
		}
	}
	try2()
	rf.Tape = cur
	rf.ShrinkExecs = execs
	if last != nil {
		rf.Detail, rf.Render = last.Detail, last.Render
	}
	writeJSON(*out, rf)
	fmt.Printf("shrunk tape %d -> %d values in %d executions\n", rf.OriginalLen, len(cur), execs)
}
