// Package orch is the orchestrator shared by both engines: it fans a batch of
// simulated runs out to worker processes, merges what they covered, minimises
// and re-executes every violation in fresh processes, matches known findings,
// writes the evidence file and sets the exit status.
//
// Exit status: 0 held on everything explored; 1 reproduced violation not listed
// as a known finding (a line "VIOLATION property=<id> replay=<path>" is
// printed); 2 anything that is the harness's own trouble.
package orch

import (
	"bufio"
	"encoding/binary"
	"encoding/json"
	"flag"
	"fmt"
	"os"
	"os/exec"
	"path/filepath"
	"runtime"
	"runtime/debug"
	"sort"
	"strconv"
	"strings"
	"sync"
	"sync/atomic"
	"time"

	"verif.local/sim/core"
	"verif.local/sim/tape"
)

// Hooks lets an engine add to the common behaviour.
type Hooks struct {
	Engine     string
	Components map[string]string // component -> "real" | "stub" | "simulated" (+ note)
	Assume     []string
	// PerRunTimeout is the watchdog on one run inside a worker.
	PerRunTimeout time.Duration
	// WorkerEnv is added to the environment of every worker.
	WorkerEnv []string
	// HangIsViolation: a run exceeding the watchdog twice is a violation of
	// this property (C09); otherwise it is harness trouble.
	HangIsViolation map[string]bool
	// ShrinkMax caps the executions spent minimising one violation of a property
	// whose runs are expensive (child processes).
	ShrinkMax map[string]int
	// Extra subcommands.
	Extra func(cmd string, args []string) bool
}

var registry map[string]core.Prop
var hooks Hooks

func fatal2(format string, a ...interface{}) {
	fmt.Fprintf(os.Stderr, "HARNESS-ERROR: "+format+"\n", a...)
	fmt.Printf("HARNESS-ERROR: "+format+"\n", a...)
	os.Exit(2)
}

// RunSeed is the PRNG seed of run i of a batch.
func RunSeed(base uint64, prop string, i int64) uint64 {
	return tape.Mix(base, tape.HashString(prop), uint64(i))
}

// Main dispatches the subcommands.
func Main(reg map[string]core.Prop, h Hooks) {
	registry, hooks = reg, h
	if hooks.PerRunTimeout == 0 {
		hooks.PerRunTimeout = 120 * time.Second
	}
	if x, err := strconv.Atoi(os.Getenv("VERIF_WATCHDOG_X")); err == nil && x > 1 {
		hooks.PerRunTimeout *= time.Duration(x)
	}
	if len(os.Args) < 2 {
		fatal2("usage: %s run|worker|replay|shrink ...", os.Args[0])
	}
	cmd, args := os.Args[1], os.Args[2:]
	switch cmd {
	case "run":
		cmdRun(args)
	case "worker":
		cmdWorker(args)
	case "replay":
		cmdReplay(args)
	case "shrink":
		cmdShrink(args)
	case "list":
		var ids []string
		for id := range registry {
			ids = append(ids, id)
		}
		sort.Strings(ids)
		fmt.Println(strings.Join(ids, " "))
	default:
		if hooks.Extra != nil && hooks.Extra(cmd, args) {
			return
		}
		fatal2("unknown subcommand %q", cmd)
	}
}

func getProp(id string) core.Prop {
	p, ok := registry[id]
	if !ok {
		fatal2("property %s is not served by this engine (%s)", id, hooks.Engine)
	}
	return p
}

// ------------------------------------------------------------------ worker

type wireViolation struct {
	T      string      `json:"t"`
	I      int64       `json:"i"`
	Tape   []uint64    `json:"tape"`
	Class  string      `json:"class"`
	Sig    string      `json:"sig"`
	Detail string      `json:"detail"`
	Render interface{} `json:"render,omitempty"`
	Own    bool        `json:"own,omitempty"`
}

type wireStats struct {
	T       string      `json:"t"`
	Stats   *core.Stats `json:"stats"`
	VCount  int64       `json:"vcount"`
	Keys    int         `json:"keys"`
	Logs    int         `json:"logs"`
	Stopped bool        `json:"stopped_early"`
}

// maxViolationsPerWorker ends a worker's slice early on a tree that fails in
// run after run.
const maxViolationsPerWorker = 60

// executeRun runs one case, converting harness panics into HarnessError.
func executeRun(p core.Prop, t *tape.Tape, st *core.Stats) (v *core.Violation, herr string) {
	defer func() {
		if r := recover(); r != nil {
			if he, ok := r.(*core.HarnessError); ok {
				herr = he.Msg
				return
			}
			herr = fmt.Sprintf("panic inside the harness: %v\n%s", r, debug.Stack())
		}
	}()
	return p.Run(t, st), ""
}

func cmdWorker(args []string) {
	fs := flag.NewFlagSet("worker", flag.ExitOnError)
	propID := fs.String("prop", "", "")
	tier := fs.String("tier", "quick", "")
	seed := fs.Uint64("seed", 1, "")
	w := fs.Int64("w", 0, "")
	W := fs.Int64("W", 1, "")
	keys := fs.String("keys", "", "file to write distinct keys to")
	careful := fs.Bool("careful", false, "announce every run before executing it")
	digest := fs.String("digest", "", "comma separated run indices: print per-run digests only")
	from := fs.Int64("from", 0, "")
	runsOverride := fs.Int64("runs", -1, "")
	fs.Parse(args)
	p := getProp(*propID)
	runs := p.Runs(*tier)
	if *runsOverride >= 0 && *runsOverride < runs {
		runs = *runsOverride
	}
	out := bufio.NewWriterSize(os.Stdout, 1<<16)
	defer out.Flush()
	enc := json.NewEncoder(out)

	var cur int64 = -1
	var curStart int64
	var curTape atomic.Value // *tape.Tape of the run in progress
	go func() {              // watchdog: wall clock is read here only, never inside a run
		for {
			time.Sleep(250 * time.Millisecond)
			c := atomic.LoadInt64(&cur)
			s := atomic.LoadInt64(&curStart)
			if c >= 0 && time.Since(time.Unix(0, s)) > hooks.PerRunTimeout {
				// the choices the stuck run has made so far are its replay tape
				var vals []uint64
				if t, ok := curTape.Load().(*tape.Tape); ok && t != nil {
					vals = append(vals, t.Vals...)
				}
				b, _ := json.Marshal(vals)
				fmt.Fprintf(os.Stdout, "\n{\"t\":\"hang\",\"i\":%d,\"tape\":%s}\n", c, b)
				os.Exit(3)
			}
		}
	}()

	if *digest != "" {
		for _, f := range strings.Split(*digest, ",") {
			i, _ := strconv.ParseInt(f, 10, 64)
			st := core.NewStats()
			st.SampleWant = 0
			t := tape.New(RunSeed(*seed, *propID, i), p.Prefix(*tier, i))
			curTape.Store(t)
			atomic.StoreInt64(&curStart, time.Now().UnixNano())
			atomic.StoreInt64(&cur, i)
			v, herr := executeRun(p, t, st)
			atomic.StoreInt64(&cur, -1)
			if herr != "" {
				out.Flush()
				fatal2("run %d: %s", i, herr)
			}
			// h: what the simulator decided (every drawn value) and the verdict;
			// d: h plus how the tree under test reacted (source calls, delivery
			// logs, step sequences). On a tree that consults the Go runtime for
			// its own decisions (sync.Pool hits depend on GC and P assignment) d
			// may differ from process to process while h may not.
			h := tape.Mix(uint64(len(t.Vals)))
			for _, x := range t.Vals {
				h = tape.Mix(h, x)
			}
			if v != nil && !st.VerdictOrderDependent {
				h = tape.Mix(h, tape.HashString(v.Class))
			}
			d := tape.Mix(h, uint64(st.Steps), uint64(st.NonTrivial), st.Digest)
			var lg uint64
			for k := range st.Logs {
				lg += tape.SplitMix64(k) // commutative: map order must not matter
			}
			d = tape.Mix(d, lg)
			fmt.Fprintf(out, "{\"t\":\"digest\",\"i\":%d,\"d\":\"%016x\",\"h\":\"%016x\"}\n", i, d, h)
		}
		return
	}

	st := core.NewStats()
	if *w != 0 {
		st.SampleWant = 1
	}
	perSig := map[string]int{}
	perSigOwn := map[string]int{}
	var vcount int64
	stoppedEarly := false
	for i := *from + *w; i < runs; i += *W {
		if *careful {
			fmt.Fprintf(out, "{\"t\":\"cur\",\"i\":%d}\n", i)
			out.Flush()
		}
		t := tape.New(RunSeed(*seed, *propID, i), p.Prefix(*tier, i))
		curTape.Store(t)
		atomic.StoreInt64(&curStart, time.Now().UnixNano())
		atomic.StoreInt64(&cur, i)
		v, herr := executeRun(p, t, st)
		atomic.StoreInt64(&cur, -1)
		if herr != "" {
			enc.Encode(map[string]interface{}{"t": "harness", "i": i, "msg": herr})
			out.Flush()
			os.Exit(2)
		}
		if v != nil {
			vcount++
			perSig[v.Sig]++
			if v.OwnHistory {
				perSigOwn[v.Sig]++
			}
			if (perSig[v.Sig] <= 2 || (v.OwnHistory && perSigOwn[v.Sig] <= 3)) && len(perSig) <= 40 {
				enc.Encode(wireViolation{"v", i, t.Vals, v.Class, v.Sig, v.Detail, v.Render, v.OwnHistory})
			}
			if vcount >= maxViolationsPerWorker {
				// fail fast: a tree that violates the property in hundreds of runs has
				// been judged; each further run may be slow (gigabyte allocations,
				// step budgets), so the rest of the slice is skipped and said so
				stoppedEarly = true
				break
			}
		}
	}
	if *keys != "" {
		writeKeys(*keys+".keys", st.Distinct)
		writeKeys(*keys+".logs", st.Logs)
	}
	enc.Encode(wireStats{"stats", st, vcount, len(st.Distinct), len(st.Logs), stoppedEarly})
}

func writeKeys(path string, m map[uint64]struct{}) {
	f, err := os.Create(path)
	if err != nil {
		fatal2("cannot write %s: %v", path, err)
	}
	bw := bufio.NewWriterSize(f, 1<<20)
	var b [8]byte
	for k := range m {
		binary.LittleEndian.PutUint64(b[:], k)
		bw.Write(b[:])
	}
	bw.Flush()
	f.Close()
}

func readKeys(path string, into *[]uint64) {
	b, err := os.ReadFile(path)
	if err != nil {
		return
	}
	for i := 0; i+8 <= len(b); i += 8 {
		*into = append(*into, binary.LittleEndian.Uint64(b[i:]))
	}
}

func countDistinct(v []uint64) int64 {
	sort.Slice(v, func(i, j int) bool { return v[i] < v[j] })
	var n int64
	for i := range v {
		if i == 0 || v[i] != v[i-1] {
			n++
		}
	}
	return n
}

// ------------------------------------------------------------------ run

type foundViolation struct {
	wireViolation
	count int
	more  []wireViolation // further runs with the same signature (other workers), tried if the first does not replay
}

type workerResult struct {
	stopped  bool
	hangTape []uint64
	stats    *core.Stats
	vcount   int64
	viol     []wireViolation
	hangAt   int64
	crashed  bool
	lastCur  int64
	exitCode int
	harness  string
	stderr   string
}

func selfExe() string {
	e, err := os.Executable()
	if err != nil {
		fatal2("os.Executable: %v", err)
	}
	return e
}

func runWorker(args []string, env []string, timeout time.Duration) workerResult {
	res := workerResult{hangAt: -1, lastCur: -1}
	cmd := exec.Command(selfExe(), args...)
	// a worker executes its runs one after the other; two OS threads are enough
	// for it and its garbage collector, and 16 workers then do not fight
	cmd.Env = append(append(append(os.Environ(), "GOMAXPROCS=2", "GOGC=800"), hooks.WorkerEnv...), env...)
	stdout, _ := cmd.StdoutPipe()
	var errBuf strings.Builder
	cmd.Stderr = &limitedBuilder{b: &errBuf, max: 1 << 16}
	if err := cmd.Start(); err != nil {
		res.harness = "cannot start worker: " + err.Error()
		return res
	}
	done := make(chan struct{})
	var timer *time.Timer
	if timeout > 0 {
		timer = time.AfterFunc(timeout, func() { cmd.Process.Kill() })
	}
	go func() {
		defer close(done)
		sc := bufio.NewScanner(stdout)
		sc.Buffer(make([]byte, 1<<20), 1<<28)
		for sc.Scan() {
			line := sc.Bytes()
			if len(line) == 0 || line[0] != '{' {
				continue
			}
			var head struct {
				T    string   `json:"t"`
				I    int64    `json:"i"`
				Msg  string   `json:"msg"`
				Tape []uint64 `json:"tape"`
			}
			if json.Unmarshal(line, &head) != nil {
				continue
			}
			switch head.T {
			case "v":
				var v wireViolation
				json.Unmarshal(line, &v)
				res.viol = append(res.viol, v)
			case "stats":
				var s wireStats
				s.Stats = core.NewStats()
				json.Unmarshal(line, &s)
				res.stats, res.vcount, res.stopped = s.Stats, s.VCount, s.Stopped
			case "hang":
				res.hangAt = head.I
				res.hangTape = head.Tape
			case "cur":
				res.lastCur = head.I
			case "harness":
				res.harness = fmt.Sprintf("run %d: %s", head.I, head.Msg)
			}
		}
	}()
	<-done
	err := cmd.Wait()
	if timer != nil {
		timer.Stop()
	}
	res.stderr = errBuf.String()
	if err != nil {
		if ee, ok := err.(*exec.ExitError); ok {
			res.exitCode = ee.ExitCode()
		} else {
			res.exitCode = -1
		}
		if res.hangAt < 0 && res.harness == "" {
			res.crashed = true
		}
	}
	return res
}

type limitedBuilder struct {
	b   *strings.Builder
	max int
}

func (l *limitedBuilder) Write(p []byte) (int, error) {
	if l.b.Len() < l.max {
		n := l.max - l.b.Len()
		if n > len(p) {
			n = len(p)
		}
		l.b.Write(p[:n])
	}
	return len(p), nil
}

func mergeStats(dst, src *core.Stats) {
	dst.Evals += src.Evals
	dst.NonTrivial += src.NonTrivial
	dst.Steps += src.Steps
	dst.CodeSteps += src.CodeSteps
	for k, v := range src.Faults {
		f := dst.Faults[k]
		if f == nil {
			f = &[2]int64{}
			dst.Faults[k] = f
		}
		f[0] += v[0]
		f[1] += v[1]
	}
	for k, v := range src.Probes {
		dst.Probes[k] += v
	}
	for k, v := range src.Classes {
		dst.Classes[k] += v
	}
	if src.DistinctCap {
		dst.DistinctCap = true
	}
	for _, s := range src.Samples {
		if len(dst.Samples) < 5 {
			dst.Samples = append(dst.Samples, s)
		}
	}
}

// KnownFindings is /verif/known_findings.json.
type KnownFindings struct {
	Open []struct {
		Property string `json:"property"`
		Sig      string `json:"sig"`
		What     string `json:"what"`
	} `json:"open"`
	Fixed []string `json:"fixed"`
}

func loadKnown(path string) KnownFindings {
	var k KnownFindings
	if path == "" {
		return k
	}
	b, err := os.ReadFile(path)
	if err != nil {
		return k
	}
	if err := json.Unmarshal(b, &k); err != nil {
		fatal2("known findings file %s does not parse: %v", path, err)
	}
	return k
}

// ReplayFile is what is written for every reported violation.
type ReplayFile struct {
	Property     string      `json:"property"`
	Engine       string      `json:"engine"`
	Tier         string      `json:"tier"`
	BaseSeed     uint64      `json:"base_seed"`
	RunIndex     int64       `json:"run_index"`
	Class        string      `json:"class"`
	Sig          string      `json:"sig"`
	Detail       string      `json:"detail"`
	Tape         []uint64    `json:"tape"`
	OriginalLen  int         `json:"original_tape_len"`
	ShrinkExecs  int         `json:"shrink_executions"`
	Reproduced   string      `json:"reproduced"`
	Render       interface{} `json:"render,omitempty"`
	ReplayCmd    string      `json:"replay_cmd"`
	OccurredRuns int         `json:"occurrences_in_batch"`
}

func cmdRun(args []string) {
	fs := flag.NewFlagSet("run", flag.ExitOnError)
	propID := fs.String("prop", "", "")
	tier := fs.String("tier", "quick", "")
	seed := fs.Uint64("seed", 1, "")
	evidence := fs.String("evidence", "", "")
	replays := fs.String("replays", "", "")
	known := fs.String("known", "", "")
	workers := fs.Int("workers", runtime.NumCPU(), "")
	scratch := fs.String("scratch", os.TempDir(), "")
	checkCmd := fs.String("checkcmd", "./check", "")
	fs.Parse(args)
	p := getProp(*propID)
	start := time.Now()
	runs := p.Runs(*tier)
	if s := os.Getenv("VERIF_RUNS_PCT"); s != "" {
		if pct, err := strconv.Atoi(s); err == nil && pct > 0 {
			runs = runs * int64(pct) / 100
			if runs < 1 {
				runs = 1
			}
		}
	}
	W := int64(*workers)
	if W > runs {
		W = runs
	}
	if W < 1 {
		W = 1
	}
	fmt.Printf("== %s %s tier=%s seed=%d runs=%d workers=%d engine=%s\n", *propID, p.Level(), *tier, *seed, runs, W, hooks.Engine)

	results := make([]workerResult, W)
	var wg sync.WaitGroup
	for k := int64(0); k < W; k++ {
		wg.Add(1)
		go func(k int64) {
			defer wg.Done()
			a := []string{"worker", "-prop", *propID, "-tier", *tier, "-seed", fmt.Sprint(*seed), "-w", fmt.Sprint(k), "-W", fmt.Sprint(W),
				"-runs", fmt.Sprint(runs), "-keys", filepath.Join(*scratch, fmt.Sprintf("w%d", k))}
			results[k] = runWorker(a, nil, 0)
		}(k)
	}
	wg.Wait()

	total := core.NewStats()
	var found []wireViolation
	var vcount int64
	hangIsV := hooks.HangIsViolation[*propID]
	hangConfirmed := false
	stoppedWorkers := 0
	slowRuns := 0
	for k := int64(0); k < W; k++ {
		r := &results[k]
		from := int64(0)
		workerArgs := func(from int64, careful bool, tag string) []string {
			a := []string{"worker", "-prop", *propID, "-tier", *tier, "-seed", fmt.Sprint(*seed), "-w", fmt.Sprint(k), "-W", fmt.Sprint(W),
				"-runs", fmt.Sprint(runs), "-from", fmt.Sprint(from), "-keys", filepath.Join(*scratch, fmt.Sprintf("w%d_%s", k, tag))}
			if careful {
				a = append(a, "-careful")
			}
			return a
		}
		for tries := 0; ; tries++ {
			if tries > 20 {
				fatal2("worker %d keeps hanging or dying", k)
			}
			if r.harness != "" {
				fatal2("worker %d: %s\n%s", k, r.harness, r.stderr)
			}
			if r.hangAt < 0 && !r.crashed {
				if r.stats == nil {
					fatal2("worker %d produced no statistics (exit %d)\n%s", k, r.exitCode, r.stderr)
				}
				mergeStats(total, r.stats)
				found = append(found, r.viol...)
				vcount += r.vcount
				if r.stopped {
					stoppedWorkers++
				}
				break
			}
			if r.crashed {
				// The process died. Re-run its slice alone and carefully (the other
				// workers have finished, so memory pressure from them is gone). If
				// that completes, its results replace the dead worker's; if it dies
				// again, the run it announced last is the culprit.
				cr := runWorker(workerArgs(from, true, fmt.Sprintf("c%d", tries)), nil, 0)
				if !cr.crashed {
					if cr.hangAt < 0 && cr.harness == "" {
						fmt.Printf("note: worker %d died (exit %d) while all workers were running; its slice, re-executed alone, completed and is used instead\n", k, r.exitCode)
					}
					*r = cr
					continue
				}
				idx := cr.lastCur
				if idx < 0 {
					fatal2("worker %d dies before its first run (exit %d)\n%s", k, cr.exitCode, trimTo(cr.stderr, 2000))
				}
				if !hangIsV {
					fatal2("run %d of %s: the process died inside the code under test; this property's check cannot judge it\n%s", idx, *propID, trimTo(cr.stderr, 2000))
				}
				found = append(found, cr.viol...)
				found = append(found, wireViolation{T: "v", I: idx, Class: "process-died", Sig: "process-died",
					Detail: fmt.Sprintf("the worker process died twice in run %d: %s", idx, trimTo(cr.stderr, 1200))})
				vcount++
				from = ((idx-k)/W + 1) * W
				*r = runWorker(workerArgs(from, false, fmt.Sprintf("r%d", tries)), nil, 0)
				continue
			}
			// a run exceeded the watchdog: believed only when it repeats with 3x the budget
			idx := r.hangAt
			found = append(found, r.viol...)
			confirmed := hangConfirmed // once a hang has been confirmed with the 3x budget, later ones in this batch are believed at 1x
			if !confirmed {
				// the run alone, as an ordinary one-run slice, with three times the budget
				cr := runWorker([]string{"worker", "-prop", *propID, "-tier", *tier, "-seed", fmt.Sprint(*seed), "-w", "0", "-W", "1",
					"-from", fmt.Sprint(idx), "-runs", fmt.Sprint(idx + 1)}, []string{"VERIF_WATCHDOG_X=3"}, 0)
				confirmed = cr.hangAt >= 0 || cr.crashed
				if !confirmed && cr.stats != nil {
					// it did finish: its verdict and coverage count like any other run's
					mergeStats(total, cr.stats)
					found = append(found, cr.viol...)
					vcount += cr.vcount
				}
			}
			slowRuns++
			if !confirmed {
				fmt.Printf("note: run %d exceeded the watchdog (%v) once but finished within three times that\n", idx, hooks.PerRunTimeout)
				if slowRuns >= 3 {
					// runs that take tens of seconds each (gigabyte allocations) would
					// keep this batch busy for hours; what was seen so far is reported
					fmt.Printf("note: %d runs of this batch exceeded the watchdog; the slice of worker %d is not continued\n", slowRuns, k)
					stoppedWorkers++
					break
				}
			} else {
				if !hangIsV {
					fatal2("run %d of %s does not return (watchdog %v, then 3x); this property's check cannot judge it", idx, *propID, hooks.PerRunTimeout)
				}
				hangConfirmed = true
				found = append(found, wireViolation{T: "v", I: idx, Tape: r.hangTape, Class: "hang", Sig: "hang",
					Detail: fmt.Sprintf("run %d did not return within %v and again not within three times that", idx, hooks.PerRunTimeout)})
				vcount++
			}
			if confirmed {
				// fail fast: each further stuck run of this slice would cost a full
				// watchdog period; the confirmed hang has judged the tree
				stoppedWorkers++
				break
			}
			from = ((idx-k)/W + 1) * W
			*r = runWorker(workerArgs(from, false, fmt.Sprintf("h%d", tries)), nil, 0)
		}
	}
	var keys, logs []uint64
	ents, _ := os.ReadDir(*scratch)
	for _, e := range ents {
		if strings.HasSuffix(e.Name(), ".keys") {
			readKeys(filepath.Join(*scratch, e.Name()), &keys)
		}
		if strings.HasSuffix(e.Name(), ".logs") {
			readKeys(filepath.Join(*scratch, e.Name()), &logs)
		}
	}
	distinct := countDistinct(keys)
	distinctLogs := countDistinct(logs)
	batchWall := time.Since(start).Seconds()

	// determinism re-check: a sample of runs is executed again in two fresh
	// processes under different GOMAXPROCS and must give identical digests
	recheckN, recheckBad, recheckReaction := determinismRecheck(*propID, *tier, *seed, runs)

	// violations: group by signature, earliest run first
	sort.Slice(found, func(i, j int) bool { return found[i].I < found[j].I })
	groups := map[string]*foundViolation{}
	nOwn := map[string]int{}
	var order []string
	for _, v := range found {
		g := groups[v.Sig]
		if g == nil {
			g = &foundViolation{wireViolation: v}
			groups[v.Sig] = g
			order = append(order, v.Sig)
		} else if v.Tape != nil && v.Own && nOwn[v.Sig] < 12 {
			nOwn[v.Sig]++
			g.more = append([]wireViolation{v}, g.more...) // runs with their own history are tried first
		} else if len(g.more) < 24 && v.Tape != nil {
			g.more = append(g.more, v)
		}
		g.count++
	}
	kf := loadKnown(*known)
	exit := 0
	var reported, knownMatched, unreproduced []string
	for gi, sig := range order {
		g := groups[sig]
		matched := false
		for _, o := range kf.Open {
			if o.Property == *propID && o.Sig == sig {
				fmt.Printf("KNOWN-FINDING: property=%s %s\n", *propID, o.What)
				knownMatched = append(knownMatched, sig)
				matched = true
			}
		}
		if matched {
			continue
		}
		if gi >= 6 {
			fmt.Printf("(further violation signature %q not minimised: %s)\n", sig, g.Detail)
			continue
		}
		rf := ReplayFile{Property: *propID, Engine: hooks.Engine, Tier: *tier, BaseSeed: *seed, RunIndex: g.I, Class: g.Class, Sig: g.Sig,
			Detail: g.Detail, Tape: g.Tape, OriginalLen: len(g.Tape), Render: g.Render, OccurredRuns: g.count}
		if g.Tape == nil {
			// hang / death: the replay is the run itself, from its seed
			t := tape.New(RunSeed(*seed, *propID, g.I), p.Prefix(*tier, g.I))
			rf.Tape = t.Vals
			rf.Detail += " (replay re-executes the run from its seed; the tape of a run that never returned is not available)"
		}
		dir := filepath.Join(*replays, *propID)
		os.MkdirAll(dir, 0o755)
		path := filepath.Join(dir, fmt.Sprintf("%d-%s-%016x.json", *seed, sanitize(g.Class), tape.HashString(sig)))
		rf.ReplayCmd = fmt.Sprintf("%s --replay %s", *checkCmd, path)
		if g.Tape != nil && g.Class == "hang" {
			// every execution of this tape runs into the watchdog: no minimisation,
			// one confirming replay in a fresh process
			writeJSON(path, rf)
			rr := runWorker([]string{"replay", "-file", path}, nil, 0)
			rf.Reproduced = "0/1"
			if rr.exitCode == 1 {
				rf.Reproduced = "1/1"
			}
			writeJSON(path, rf)
		} else if g.Tape != nil {
			cands := append([]wireViolation{g.wireViolation}, g.more...)
			if !g.Own && len(g.more) > 0 && g.more[0].Own {
				cands = append(append([]wireViolation{}, g.more...), g.wireViolation)
			}
			if len(cands) > 1 {
				// screening: one plain replay of each candidate in a fresh process.
				// On a tree that carries state from call to call (free lists, caches)
				// most violating runs depend on what the worker process did before
				// them; the ones to minimise are those that contain their own history.
				for ci, cv := range cands {
					rf.RunIndex, rf.Detail, rf.Tape, rf.OriginalLen, rf.Render = cv.I, cv.Detail, cv.Tape, len(cv.Tape), cv.Render
					writeJSON(path, rf)
					if rr := runWorker([]string{"replay", "-file", path}, nil, 10*time.Minute); rr.exitCode == 1 {
						if ci > 0 {
							fmt.Printf("note: %s/%s: %d earlier candidate run(s) did not replay in a fresh process, run %d does\n", *propID, sig, ci, cv.I)
						}
						cands = append([]wireViolation{cv}, append(append([]wireViolation{}, cands[:ci]...), cands[ci+1:]...)...)
						break
					}
				}
				if len(cands) > 4 {
					cands = cands[:4]
				}
			}
			ok := 0
			const attempts = 5
			for ci, cv := range cands {
				rf.RunIndex, rf.Detail, rf.Tape, rf.OriginalLen, rf.Render = cv.I, cv.Detail, cv.Tape, len(cv.Tape), cv.Render
				writeJSON(path, rf)
				orig := rf
				minimise := func(fresh bool) {
					sargs := []string{"shrink", "-file", path, "-out", path + ".min"}
					if m := hooks.ShrinkMax[*propID]; m > 0 {
						sargs = append(sargs, "-max", fmt.Sprint(m), "-budget", "60s")
					} else if fresh {
						sargs = append(sargs, "-fresh", "-max", "200", "-budget", "150s")
					}
					shr := runWorker(sargs, nil, 10*time.Minute)
					if b, err := os.ReadFile(path + ".min"); err == nil {
						var m ReplayFile
						if json.Unmarshal(b, &m) == nil && m.Tape != nil {
							m.ReplayCmd, m.OccurredRuns, m.OriginalLen = rf.ReplayCmd, rf.OccurredRuns, rf.OriginalLen
							rf = m
						}
					} else if shr.stderr != "" {
						fmt.Printf("note: minimisation did not finish: %s\n", trimTo(shr.stderr, 300))
					}
					os.Remove(path + ".min")
					writeJSON(path, rf)
					ok = 0
					for a := 0; a < attempts; a++ {
						rr := runWorker([]string{"replay", "-file", path}, []string{fmt.Sprintf("GOMAXPROCS=%d", []int{1, 4, 16, 2, 8}[a])}, 10*time.Minute)
						if rr.exitCode == 1 {
							ok++
						}
					}
				}
				minimise(false)
				if ok == 0 && hooks.ShrinkMax[*propID] == 0 {
					// the minimised tape does not replay. If the recorded one does, the
					// minimisation was misled: executions inside one process depend on
					// each other when the tree carries state from call to call.
					rf = orig
					writeJSON(path, rf)
					if rr := runWorker([]string{"replay", "-file", path}, nil, 10*time.Minute); rr.exitCode == 1 {
						fmt.Printf("note: %s/%s of run %d: the minimised tape does not replay in a fresh process, the recorded one does (the tree carries state from call to call); minimising again with one process per candidate\n", *propID, sig, cv.I)
						minimise(true)
						if ok == 0 {
							rf = orig
							writeJSON(path, rf)
							for a := 0; a < attempts; a++ {
								if rr := runWorker([]string{"replay", "-file", path}, []string{fmt.Sprintf("GOMAXPROCS=%d", []int{1, 4, 16, 2, 8}[a])}, 10*time.Minute); rr.exitCode == 1 {
									ok++
								}
							}
						}
					}
				}
				rf.Reproduced = fmt.Sprintf("%d/%d", ok, attempts)
				writeJSON(path, rf)
				if ok > 0 {
					break
				}
				fmt.Printf("note: %s/%s of run %d did not reproduce in %d fresh processes (candidate %d of %d)\n", *propID, sig, cv.I, attempts, ci+1, len(cands))
			}
			if ok == 0 {
				// Not reportable without a replay. Whether this is the harness's own
				// nondeterminism or that of a defective tree (state carried from run to
				// run inside the code under test) is decided below.
				unreproduced = append(unreproduced, fmt.Sprintf("%s of run %d: %s", sig, g.I, trimTo(g.Detail, 300)))
				os.Rename(path, path+".unreproduced") // kept for diagnosis; not a replay file of a reported violation
				continue
			}
		} else {
			rf.Reproduced = "hang/death confirmed by a second execution"
			writeJSON(path, rf)
		}
		fmt.Printf("violation class=%s sig=%s runs=%d reproduced=%s: %s\n", rf.Class, rf.Sig, g.count, rf.Reproduced, trimTo(rf.Detail, 400))
		fmt.Printf("VIOLATION property=%s replay=%s\n", *propID, path)
		reported = append(reported, path)
		exit = 1
	}
	if len(unreproduced) > 0 {
		if exit == 0 {
			fatal2("%d violation(s) did not reproduce in fresh processes and none did: uncontrolled nondeterminism; first: %s", len(unreproduced), unreproduced[0])
		}
		fmt.Printf("note: %d further violation signature(s) did not reproduce in fresh processes (state carried between runs inside the tree under test?); the reproduced ones stand: %s\n", len(unreproduced), unreproduced[0])
	}
	if recheckReaction > 0 {
		// same drawn values, same verdict, but the tree asked the source for
		// other request sizes / executed other statements: the tree itself takes
		// decisions the simulator does not own (sync.Pool hits depend on the
		// garbage collector and on which P a goroutine runs). Not a verdict and
		// not a harness fault; on the unchanged tree the count is 0.
		fmt.Printf("note: determinism re-check: %d of %d re-executed runs reacted differently (source calls / step sequence) with identical inputs and verdicts: the tree under test takes decisions of its own (sync.Pool?)\n", recheckReaction, recheckN)
	}
	if recheckBad > 0 {
		if exit == 0 {
			fatal2("determinism re-check: %d of %d re-executed runs gave a different digest", recheckBad, recheckN)
		}
		// a tree that violates the property may also behave differently from
		// process to process (pooled buffers, map order); the violation stands
		fmt.Printf("note: determinism re-check: %d of %d re-executed runs gave a different digest (reported violations stand)\n", recheckBad, recheckN)
	}

	wall := time.Since(start).Seconds()
	if *evidence != "" {
		faults := map[string]map[string]int64{}
		for k, v := range total.Faults {
			faults[k] = map[string]int64{"configured": v[0], "fired": v[1]}
		}
		cov := map[string]interface{}{
			"evaluations":            total.Evals,
			"distinct_nontrivial":    distinct,
			"nontrivial_runs":        total.NonTrivial,
			"rule":                   p.Rule(),
			"samples":                total.Samples,
			"sim_steps":              total.Steps,
			"code_steps":             total.CodeSteps,
			"sim_time_note":          "prism has no clock or timer; simulated time is reported as steps (source Read events, scheduler steps)",
			"fault_kinds":            faults,
			"probes":                 total.Probes,
			"workload_classes":       total.Classes,
			"distinct_schedules":     distinctLogs,
			"distinct_measure":       "distinct_nontrivial: distinct hash of (workload, fault, delivery-log/interleaving hash) among non-trivial runs; distinct_schedules: distinct delivery logs (engine A) or (task,site) step sequences (engine B)",
			"distinct_capped":        total.DistinctCap,
			"runs_per_hour":          int64(float64(total.Evals) / batchWall * 3600),
			"seeds":                  map[string]interface{}{"base_seed": *seed, "run_index_from": 0, "run_index_to": runs - 1, "per_run_seed": "splitmix(base, property, index)"},
			"components":             hooks.Components,
			"engine":                 hooks.Engine,
			"determinism_recheck":    map[string]int{"runs_reexecuted_twice": recheckN, "mismatches": recheckBad, "same_inputs_and_verdict_but_different_reaction_of_the_tree": recheckReaction},
			"violating_runs":         vcount,
			"violation_replays":      reported,
			"known_findings_matched": knownMatched,
			"repo":                   repoDir(),
		}
		if ex := p.Exhaustive(*tier); ex != "" {
			cov["exhaustive_part"] = ex
		}
		ev := map[string]interface{}{
			"property_id": *propID,
			"tier":        *tier,
			"seed":        *seed,
			"level":       p.Level(),
			"coverage":    cov,
			"assumptions": hooks.Assume,
			"wall_s":      wall,
			"violations":  len(reported),
		}
		writeJSON(*evidence, ev)
	}
	if stoppedWorkers > 0 {
		fmt.Printf("note: %d of %d workers stopped their slice after %d violating runs each (fail fast); coverage figures are partial\n", stoppedWorkers, W, maxViolationsPerWorker)
	}
	fmt.Printf("== %s: %d runs, %d non-trivial (%d distinct), %d distinct schedules, %d violating runs, %d reported, %.1fs\n",
		*propID, total.Evals, total.NonTrivial, distinct, distinctLogs, vcount, len(reported), wall)
	if total.Evals == 0 {
		fatal2("no run was executed")
	}
	os.Exit(exit)
}

func repoDir() string {
	if d := os.Getenv("VERIF_REPO"); d != "" {
		return d
	}
	return "/repo"
}

func trimTo(s string, n int) string {
	if len(s) > n {
		return s[:n] + "…"
	}
	return s
}

func sanitize(s string) string {
	out := []byte(s)
	for i, c := range out {
		if !(c >= 'a' && c <= 'z' || c >= 'A' && c <= 'Z' || c >= '0' && c <= '9' || c == '-') {
			out[i] = '_'
		}
	}
	if len(out) > 40 {
		out = out[:40]
	}
	return string(out)
}

func writeJSON(path string, v interface{}) {
	b, err := json.MarshalIndent(v, "", " ")
	if err != nil {
		fatal2("marshal %s: %v", path, err)
	}
	if err := os.WriteFile(path, append(b, '\n'), 0o644); err != nil {
		fatal2("write %s: %v", path, err)
	}
}

func determinismRecheck(prop, tier string, seed uint64, runs int64) (count int, bad int, reactionOnly int) {
	n := runs / 20
	if n > 400 {
		n = 400
	}
	if n < 1 {
		n = 1
	}
	r := tape.NewRand(seed ^ 0xD1CE)
	var idx []string
	for i := int64(0); i < n; i++ {
		idx = append(idx, fmt.Sprint(int64(r.Uint64()%uint64(runs))))
	}
	get := func(procs int) map[int64][2]string {
		out := map[int64][2]string{}
		cmd := exec.Command(selfExe(), "worker", "-prop", prop, "-tier", tier, "-seed", fmt.Sprint(seed), "-digest", strings.Join(idx, ","))
		cmd.Env = append(append(append(os.Environ(), "GOGC=800"), hooks.WorkerEnv...), fmt.Sprintf("GOMAXPROCS=%d", procs))
		b, err := cmd.Output()
		if err != nil && len(b) == 0 {
			return nil
		}
		sc := bufio.NewScanner(strings.NewReader(string(b)))
		for sc.Scan() {
			var d struct {
				T string `json:"t"`
				I int64  `json:"i"`
				D string `json:"d"`
				H string `json:"h"`
			}
			if json.Unmarshal(sc.Bytes(), &d) == nil && d.T == "digest" {
				out[d.I] = [2]string{d.D, d.H}
			}
		}
		return out
	}
	var a, b map[int64][2]string
	var wg sync.WaitGroup
	wg.Add(2)
	go func() { defer wg.Done(); a = get(1) }()
	go func() { defer wg.Done(); b = get(16) }()
	wg.Wait()
	if a == nil || b == nil {
		return 0, 0, 0 // a run hung or died; that is reported through the main path
	}
	for i, d := range a {
		switch {
		case b[i][1] != d[1]:
			bad++
		case b[i][0] != d[0]:
			reactionOnly++
		}
	}
	return len(a), bad, reactionOnly
}
