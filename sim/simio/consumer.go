package simio

import (
	"bufio"
	"bytes"
	"fmt"
	"io"
	"sync"

	"verif.local/sim/tape"
)

// ConsumerPolicy is how the stream returned by a loader is read to its end.
type ConsumerPolicy int

const (
	ConsReadAll ConsumerPolicy = iota
	ConsFixed
	ConsRandom
	ConsBufio
	ConsCopy
)

func (c ConsumerPolicy) String() string {
	return [...]string{"io.ReadAll", "fixed", "random", "bufio", "io.Copy"}[c]
}

type Consumer struct {
	Policy ConsumerPolicy
	K      int
	Seed   uint64
}

func (c Consumer) String() string {
	if c.Policy == ConsFixed || c.Policy == ConsRandom || c.Policy == ConsBufio {
		return fmt.Sprintf("%s(%d)", c.Policy, c.K)
	}
	return c.Policy.String()
}

// Consumed is the result of reading a stream to its end while comparing it,
// byte for byte and on the fly, with what it ought to yield.
type Consumed struct {
	N       int64  // bytes received
	Diff    int64  // offset of the first byte that differs from the expectation (or lies beyond it); -1: none
	Window  []byte // up to 16 received bytes starting at Diff
	Err     error  // nil means clean end of stream
	Panic   interface{}
	Stalled bool // 10000 consecutive (0,nil) answers
}

// Classify names a mismatch: the received window is searched in the expectation.
func (c *Consumed) Classify(want []byte) string {
	if c.Diff < 0 {
		return ""
	}
	if c.Diff >= int64(len(want)) {
		return "duplicated-bytes"
	}
	w := c.Window
	if len(w) >= 4 {
		if i := bytes.Index(want[c.Diff:], w); i > 0 {
			return "lost-bytes"
		}
		if i := bytes.Index(want[:c.Diff], w); i >= 0 {
			return "duplicated-bytes"
		}
	}
	return "reordered-bytes"
}

type cmpWriter struct {
	want   []byte
	n      int64
	diff   int64
	window []byte
}

func (w *cmpWriter) Write(p []byte) (int, error) {
	if w.diff < 0 {
		rest := w.want[minI64(w.n, int64(len(w.want))):]
		k := len(p)
		if k > len(rest) {
			k = len(rest)
		}
		if !bytes.Equal(p[:k], rest[:k]) {
			i := 0
			for p[i] == rest[i] {
				i++
			}
			w.diff = w.n + int64(i)
			w.window = append(w.window, p[i:minInt(len(p), i+16)]...)
		} else if k < len(p) {
			w.diff = w.n + int64(k)
			w.window = append(w.window, p[k:minInt(len(p), k+16)]...)
		}
	} else if len(w.window) < 16 {
		w.window = append(w.window, p[:minInt(len(p), 16-len(w.window))]...)
	}
	w.n += int64(len(p))
	if w.diff >= 0 && w.n > w.diff+1<<20 {
		return 0, io.ErrShortWrite // runaway guard: stop a stream that never ends
	}
	return len(p), nil
}

func minInt(a, b int) int {
	if a < b {
		return a
	}
	return b
}
func minI64(a, b int64) int64 {
	if a < b {
		return a
	}
	return b
}

// only exposes Read, hiding WriterTo so that the drawn request sizes are honoured
type onlyReader struct{ r io.Reader }

func (o onlyReader) Read(p []byte) (int, error) { return o.r.Read(p) }

var bufPool = sync.Pool{New: func() interface{} { b := make([]byte, 1<<16); return &b }}

// Consume reads r to its end under the policy, comparing with want.
func (c Consumer) Consume(r io.Reader, want []byte) (res Consumed) {
	res.Diff = -1
	w := &cmpWriter{want: want, diff: -1}
	defer func() {
		if p := recover(); p != nil {
			res.Panic = p
		}
		res.N, res.Diff, res.Window = w.n, w.diff, w.window
	}()
	if r == nil {
		return
	}
	finish := func(err error) Consumed {
		if err == io.EOF || err == io.ErrShortWrite {
			err = nil
		}
		res.Err = err
		return res
	}
	switch c.Policy {
	case ConsCopy:
		_, err := io.Copy(w, r)
		return finish(err)
	case ConsBufio:
		k := c.K
		if k < 16 {
			k = 16
		}
		_, err := io.Copy(w, onlyReader{bufio.NewReaderSize(r, k)})
		return finish(err)
	}
	rng := tape.NewRand(c.Seed)
	bp := bufPool.Get().(*[]byte)
	defer bufPool.Put(bp)
	buf := *bp
	size := 512 // io.ReadAll-like growing requests
	if c.Policy != ConsReadAll {
		size = c.K
		if size < 1 {
			size = 1
		}
		if size > len(buf) {
			size = len(buf)
		}
	}
	zeros := 0
	for {
		p := buf[:size]
		if c.Policy == ConsRandom {
			p = buf[:1+rng.Intn(size)]
		}
		n, err := r.Read(p)
		if n > 0 {
			zeros = 0
			if _, werr := w.Write(p[:n]); werr != nil {
				return finish(nil)
			}
		}
		if err != nil {
			return finish(err)
		}
		if n == 0 {
			zeros++
			if zeros >= 10000 {
				res.Stalled = true
				return finish(nil)
			}
		}
		if c.Policy == ConsReadAll && size < len(buf) {
			size *= 2
		}
	}
}
