module verif.local/sim

go 1.23

require (
	github.com/mandykoh/go-parallel v0.1.0
	github.com/mandykoh/prism v0.0.0
	golang.org/x/image v0.18.0
	verif.local/simrt v0.0.0
)

replace github.com/mandykoh/prism => /repo

replace verif.local/simrt => ./simrt
